#!/bin/sh
# setup_cmd: nothing to fetch or compile.  The harness is pure Python run by the
# repository's own interpreter (/venv/bin/python); it needs no third-party
# package beyond what the repository itself depends on.  Build the registry
# archives once (checks rebuild them again from the working tree) and self-test
# that the repository imports from its working tree.
set -e
cd "$(dirname "$0")"
chmod +x check tools/*.py 2>/dev/null || true
PYTHONWARNINGS=ignore /venv/bin/python - <<'PY'
import sys
sys.path.insert(0, ".")
from mon import boot
boot.boot()
boot.build_registries()
import moclo, moclo.kits.ytk, moclo.registry.ytk
print("setup ok: moclo", moclo.__version__, "from", boot.REPO)
PY
# the harness's own oracles against independent references (naive rotation, `re` on rotated copies, the
# assembly case pinned by the repository's tests): a broken oracle must not go unnoticed
PYTHONWARNINGS=ignore /venv/bin/python tools/selftest.py

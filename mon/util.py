"""Small string helpers shared by the oracles.  Nothing here imports moclo."""
import hashlib
import json

# IUPAC nucleotide codes, typed in from the standard (NC-IUB 1984), *not*
# read from moclo.regex.DNARegex._lettermap.
IUPAC = {
    "A": "A", "C": "C", "G": "G", "T": "T",
    "R": "AG", "Y": "CT", "S": "CG", "W": "AT", "K": "GT", "M": "AC",
    "B": "CGT", "D": "AGT", "H": "ACT", "V": "ACG", "N": "ACGT",
}
_COMP = {"A": "T", "C": "G", "G": "C", "T": "A", "a": "t", "c": "g", "g": "c", "t": "a",
         "R": "Y", "Y": "R", "S": "S", "W": "W", "K": "M", "M": "K", "B": "V", "V": "B",
         "D": "H", "H": "D", "N": "N",
         "r": "y", "y": "r", "s": "s", "w": "w", "k": "m", "m": "k", "b": "v", "v": "b",
         "d": "h", "h": "d", "n": "n"}


def rc(s):
    return "".join(_COMP[c] for c in reversed(s))


def rot_left(s, k):
    """string rotated so that s[k] becomes index 0"""
    if not s:
        return s
    k %= len(s)
    return s[k:] + s[:k]


def rot_right(s, k):
    """last k letters moved to the front (what `record >> k` is specified to do)"""
    if not s:
        return s
    k %= len(s)
    return s[-k:] + s[:-k] if k else s


def canon(s):
    """canonical rotation (upper-cased, lexicographically least)"""
    s = s.upper()
    if not s:
        return s
    d = s + s
    n = len(s)
    best = 0
    # Booth-free simple version is O(n^2) worst case; records here are <= ~12 kb
    # so use the classic least-rotation algorithm.
    f = [-1] * (2 * n)
    k = 0
    for j in range(1, 2 * n):
        i = f[j - k - 1]
        while i != -1 and d[j] != d[k + i + 1]:
            if d[j] < d[k + i + 1]:
                k = j - i - 1
            i = f[i]
        if i == -1 and d[j] != d[k + i + 1]:
            if d[j] < d[k + i + 1]:
                k = j
            f[j - k] = -1
        else:
            f[j - k] = i + 1
    best = k % n
    return s[best:] + s[:best]


def same_circle(a, b):
    a = a.upper()
    b = b.upper()
    return len(a) == len(b) and (a == b or (len(a) > 0 and b in a + a))


def occurrences(s, pat, circular=True):
    """overlap-aware start positions of pat in s (case-folded)"""
    s = s.upper()
    pat = pat.upper()
    n = len(s)
    if not pat or not s:
        return []
    d = s + s[: len(pat) - 1] if circular else s
    if circular and len(pat) - 1 > n:
        d = (s * (len(pat) // n + 2))[: n + len(pat) - 1]
    out = []
    i = d.find(pat)
    while i != -1 and i < n:
        out.append(i)
        i = d.find(pat, i + 1)
    return out


def circ_slice(s, a, length):
    n = len(s)
    return "".join(s[(a + j) % n] for j in range(length))


def sigmatch(sig, ov):
    """IUPAC containment: overhang text `ov` is a member of signature `sig`"""
    return len(sig) == len(ov) and all(o in IUPAC[s] for s, o in zip(sig.upper(), ov.upper()))


def sha(obj):
    return hashlib.sha1(json.dumps(obj, sort_keys=True, default=str).encode()).hexdigest()[:16]

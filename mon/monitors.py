"""Boundary monitors installed from the harness on the repository's own
methods.  Each monitor sees *every* call (including the internal ones made by
assemblies and validations), judges the call/return pair against an oracle
written independently of the code, and reports through a Ctx.

Monitors never change the observed behaviour: the original is called, its
result (or exception) is passed through untouched.
"""
import functools

from . import boot
from .util import rot_left, rot_right, rc
from .denote import denote, same_denotation, parts_of
from . import rxmodel


def wrap_method(cls, name, post, pre=None):
    """replace cls.<name> by a wrapper calling the original then post(self, args, kwargs, result, exc, token)"""
    orig = cls.__dict__[name] if name in cls.__dict__ else getattr(cls, name)
    raw = orig.__func__ if isinstance(orig, (classmethod, staticmethod)) else orig

    @functools.wraps(raw)
    def wrapper(self, *a, **kw):
        token = pre(self, a, kw) if pre else None
        try:
            res = raw(self, *a, **kw)
        except BaseException as e:
            post(self, a, kw, None, e, token)
            raise
        post(self, a, kw, res, None, token)
        return res

    wrapper.__verif_orig__ = orig
    setattr(cls, name, wrapper)
    return orig


def unwrap_method(cls, name):
    cur = cls.__dict__.get(name)
    if cur is not None and hasattr(cur, "__verif_orig__"):
        setattr(cls, name, cur.__verif_orig__)


# ----------------------------------------------------------------------------- helpers

def feat_key(f, i):
    u = f.qualifiers.get("uid") if hasattr(f, "qualifiers") and f.qualifiers is not None else None
    return ("uid", u[0]) if u else ("idx", i)


def feature_table(rec):
    """{key: (type, id, qualifiers-as-plain, parts or None)}; key = uid qualifier when present else index"""
    out = {}
    keys = [feat_key(f, i) for i, f in enumerate(rec.features)]
    for i, f in enumerate(rec.features):
        q = {k: (list(v) if isinstance(v, (list, tuple)) else v) for k, v in (f.qualifiers or {}).items()}
        # a uid carried by several features (the same annotation listed twice) identifies none of them: those are
        # matched like unlabelled features, as a multiset
        key = keys[i] if keys.count(keys[i]) == 1 else ("idx", i)
        out[key] = (f.type, f.id, q, None if f.location is None else parts_of(f.location))
    return out


def meta_of(rec):
    return (rec.id, rec.name, rec.description, list(rec.dbxrefs), dict(rec.annotations))


def compare_rotated(before, after, k, ctx, where, report):
    """judge `after` as `before` rotated right by k (k any integer).
    before = (seq, letter_annotations, feature_table, meta); report(mech, msg, **detail)."""
    s0, la0, ft0, meta0 = before
    n = len(s0)
    s1 = str(after.seq)
    kk = k % n if n else 0
    ok = True
    if s1 != rot_right(s0, kk):
        report("rotation-sequence", "%s by %d: sequence %r is not %r with its last %d letters moved to the front" % (where, k, s1[:60], s0[:60], kk), n=n, k=k)
        ok = False
    la1 = {t: list(v) for t, v in after.letter_annotations.items()}
    if set(la1) != set(la0):
        report("rotation-letter-annotations-lost", "%s by %d: tracks %s became %s" % (where, k, sorted(la0), sorted(la1)), n=n, k=k)
        ok = False
    else:
        for t in la0:
            want = list(la0[t])[-kk:] + list(la0[t])[:-kk] if kk else list(la0[t])
            if list(la1[t]) != want:
                report("rotation-letter-annotations", "%s by %d: per-letter track %r is not rotated with the sequence (got %r from %r)" % (where, k, t, list(la1[t])[:12], list(la0[t])[:12]), n=n, k=k)
                ok = False
                break
    ft1 = feature_table(after)
    back = lambda p: (p if p[0] == "remote" else ("gap", (p[1] - kk) % n)) if isinstance(p, tuple) else (p - kk) % n
    keyed0 = {key: v for key, v in ft0.items() if key[0] == "uid"}
    keyed1 = {key: v for key, v in ft1.items() if key[0] == "uid"}
    plain0 = [v for key, v in ft0.items() if key[0] != "uid"]
    plain1 = [v for key, v in ft1.items() if key[0] != "uid"]
    if set(keyed1) != set(keyed0) or len(plain0) != len(plain1):
        report("rotation-features-lost", "%s by %d: feature keys %s became %s (%d/%d without uid)" % (
            where, k, sorted(map(str, keyed0)), sorted(map(str, keyed1)), len(plain0), len(plain1)), n=n, k=k)
        ok = False
    for key in keyed0:
        if key not in keyed1:
            continue
        t0, i0, q0, p0 = keyed0[key]
        t1, i1, q1, p1 = keyed1[key]
        if (t0, i0, q0) != (t1, i1, q1):
            report("rotation-feature-metadata", "%s by %d: feature %s type/id/qualifiers changed: %r -> %r" % (where, k, key, (t0, i0, q0), (t1, i1, q1)), n=n, k=k)
            ok = False
        if (p0 is None) != (p1 is None):
            report("rotation-feature-location", "%s by %d: feature %s location %r -> %r" % (where, k, key, p0, p1), n=n, k=k)
            ok = False
        elif p0 is not None:
            d0 = denote({"parts": p0}, n)
            d1 = [(back(p), st) for p, st in denote({"parts": p1}, n)]
            if not same_denotation(d0, d1, n):
                report("rotation-feature-location", "%s by %d on length %d: feature %s at %r moved to %r, which denotes other nucleotides" % (where, k, n, key, p0, p1), n=n, k=k, before=p0, after=p1)
                ok = False
            ctx.count("rotation_feature_checks")
    # features without a uid: a multiset matched by type + id + qualifiers + denotation (their order is not part of the property)
    rest = list(plain1)
    for t0, i0, q0, p0 in plain0:
        hit = None
        for f1 in rest:
            t1, i1, q1, p1 = f1
            if (t0, i0, q0) != (t1, i1, q1) or (p0 is None) != (p1 is None):
                continue
            if p0 is None or same_denotation(denote({"parts": p0}, n), [(back(p), st) for p, st in denote({"parts": p1}, n)], n):
                hit = f1
                break
        ctx.count("rotation_feature_checks")
        if hit is None:
            cands = [x[3] for x in rest if x[0] == t0 and x[2] == q0]
            mech = "rotation-feature-location" if cands else "rotation-feature-metadata"
            report(mech, "%s by %d on length %d: the %s feature at %r (no uid) has no counterpart denoting the same nucleotides with the same type and qualifiers (candidates %r)" % (
                where, k, n, t0, p0, cands[:3]), n=n, k=k, before=p0)
            ok = False
        else:
            rest.remove(hit)
    if meta_of(after) != meta0:
        report("rotation-metadata", "%s by %d: id/name/description/dbxrefs/annotations changed: %r -> %r" % (where, k, meta0, meta_of(after)), n=n, k=k)
        ok = False
    return ok


def snapshot_for_rotation(rec):
    return (str(rec.seq), {t: list(v) for t, v in rec.letter_annotations.items()}, feature_table(rec), meta_of(rec))


class RotationMonitor(object):
    """C13: post-conditions on CircularRecord.__rshift__ / __lshift__ (every call)."""

    def __init__(self, ctx):
        self.ctx = ctx
        self.depth = 0

    def install(self):
        boot.boot()
        from moclo.record import CircularRecord

        self.CircularRecord = CircularRecord
        wrap_method(CircularRecord, "__rshift__", self._post(+1, ">>"), self._pre)
        wrap_method(CircularRecord, "__lshift__", self._post(-1, "<<"), self._pre)

    def _pre(self, rec, a, kw):
        return snapshot_for_rotation(rec)

    def _post(self, sign, opname):
        def post(rec, a, kw, res, exc, before):
            ctx = self.ctx
            ctx.count("rotation_calls")
            k = a[0]
            n = len(before[0])
            if exc is not None:
                ctx.violation("rotation-raises:%s" % type(exc).__name__,
                              "record %s %r raised %s: %s" % (opname, k, type(exc).__name__, str(exc)[:200]), n=n, k=k)
                return
            if not isinstance(res, self.CircularRecord):
                ctx.violation("rotation-type", "record %s %r returned %s" % (opname, k, type(res).__name__), n=n, k=k)
                return
            ctx.hist("rotation_k_class", "zero" if (k % n == 0) else ("negative" if k < 0 else ("beyond-length" if k >= n else "inside")))
            compare_rotated(before, res, sign * k, ctx, "record %s k" % opname, ctx.violation)
            # purity of the operand
            if snapshot_for_rotation(rec) != before:
                ctx.violation("rotation-mutates-operand", "record %s %r changed its operand" % (opname, k), n=n, k=k)
        return post


# ----------------------------------------------------------------------------- C16

def target_text(target):
    from Bio.SeqRecord import SeqRecord

    return str(target.seq) if isinstance(target, SeqRecord) else str(target)


class SearchMonitor(object):
    """C16: post-conditions on DNARegex.search and SeqMatch.group against mon/rxmodel.py."""

    MAXSIZE = 2 ** 63 - 1

    def __init__(self, ctx, max_model_len=20000):
        self.ctx = ctx
        self.max_model_len = max_model_len
        self._parse_cache = {}

    def install(self):
        boot.boot()
        from moclo import regex
        from moclo.record import CircularRecord

        self.CircularRecord = CircularRecord
        self.regex = regex
        wrap_method(regex.DNARegex, "search", self._post_search)
        wrap_method(regex.SeqMatch, "group", self._post_group)

    def _supported(self, pattern):
        if pattern not in self._parse_cache:
            try:
                rxmodel.parse(pattern)
                ok = all(c in "()*+?" or c in rxmodel.IUPAC for c in pattern)
            except Exception:
                ok = False
            self._parse_cache[pattern] = ok
        return self._parse_cache[pattern]

    def _post_search(self, rx, a, kw, res, exc, token):
        ctx = self.ctx
        names = ["string", "pos", "endpos", "linear"]
        args = dict(zip(names, a))
        args.update(kw)
        string = args.get("string")
        pos = args.get("pos", 0)
        endpos = args.get("endpos", self.MAXSIZE)
        linear = args.get("linear", True)
        from Bio.Seq import Seq
        from Bio.SeqRecord import SeqRecord

        if not isinstance(string, (Seq, SeqRecord)):
            return  # TypeError path, not part of the property
        pattern = rx.pattern
        if not self._supported(pattern) or len(string) > self.max_model_len or pos < 0:
            ctx.count("search_calls_outside_model")
            return
        text = target_text(string)
        if set(text) - set("ACGTacgt"):
            ctx.count("search_calls_outside_model")   # targets with ambiguity letters are outside C16's quantifier
            return
        ctx.count("search_calls")
        circular = (not linear) or isinstance(string, self.CircularRecord)
        kind = ("circular-record" if isinstance(string, self.CircularRecord) else
                "record" if isinstance(string, SeqRecord) else "seq") + ("" if not circular or isinstance(string, self.CircularRecord) else "-nonlinear")
        ctx.hist("search_target_kind", kind)
        if exc is not None:
            ctx.violation("search-raises:%s" % type(exc).__name__,
                          "DNARegex(%r).search on %s of length %d raised %s: %s" % (pattern, kind, len(text), type(exc).__name__, str(exc)[:200]),
                          pattern=pattern, text=text[:200])
            return
        exp = rxmodel.search(pattern, text, pos, None if endpos >= self.MAXSIZE else endpos, circular)
        wit = dict(pattern=pattern, text=text if len(text) <= 300 else text[:300] + "...", pos=pos,
                   endpos=None if endpos >= self.MAXSIZE else endpos, circular=circular, kind=kind)
        if (res is None) != (exp is None):
            got = None if res is None else res.span(0)
            ctx.violation("search-found-mismatch:" + ("circular" if circular else "linear"),
                          "DNARegex(%r).search(%s %r, pos=%r, endpos=%r) %s, but the reference matcher %s" % (
                              pattern, kind, wit["text"][:80], pos, wit["endpos"],
                              "found nothing" if res is None else "matched at %r" % (got,),
                              "finds no match" if exp is None else "matches at %r" % (exp[0],)), **wit)
            return
        if res is None:
            ctx.count("search_none")
            return
        res._verif_circular = circular
        res._verif_text = text
        n = len(text)
        if exp[0][1] > n:
            ctx.count("search_wrapped_matches")
        if exp[0][1] - exp[0][0] > n:
            ctx.violation("search-more-than-one-turn", "match %r longer than the target (%d)" % (exp[0], n), **wit)
        got_spans = [tuple(res.span(g)) for g in range(len(exp))]
        if got_spans != [tuple(x) for x in exp] or res.start() != exp[0][0] or res.end() != exp[0][1]:
            mech = "search-start-not-leftmost" if got_spans[0][0] != exp[0][0] else "search-span-mismatch"
            ctx.violation(mech + ":" + ("circular" if circular else "linear"),
                          "DNARegex(%r).search(%s %r, pos=%r, endpos=%r): spans %r (start()=%r end()=%r), reference matcher says %r" % (
                              pattern, kind, wit["text"][:80], pos, wit["endpos"], got_spans, res.start(), res.end(), exp), **wit)
        if not circular and res.end() > n:
            ctx.violation("search-linear-past-end", "linear match ends at %d > %d" % (res.end(), n), **wit)

    def _post_group(self, m, a, kw, res, exc, token):
        ctx = self.ctx
        if not hasattr(m, "_verif_circular"):
            ctx.count("group_calls_unjudged")
            return
        index = a[0] if a else kw.get("index", 0)
        text = m._verif_text
        n = len(text)
        try:
            a0, b0 = m.span(index)
        except Exception:
            return
        circular = m._verif_circular
        if a0 == b0:
            cls = "empty"
        elif b0 <= n:
            cls = "plain" if b0 < n else "ends-at-end"
        elif a0 >= n:
            cls = "wholly-past-end"
        else:
            cls = "straddling"
        ctx.count("group_calls")
        ctx.hist("group_span_class", cls)
        if cls == "straddling":
            ctx.count("group_straddling")
        if cls == "wholly-past-end":
            ctx.count("group_past_end")
        wit = dict(pattern=getattr(getattr(m.match, "re", None), "pattern", None), text=text if n <= 300 else text[:300] + "...",
                   span=[a0, b0], index=index, n=n)
        if exc is not None:
            ctx.violation("group-raises:%s:%s" % (cls, type(exc).__name__),
                          "group(%d) with span %r on a target of length %d raised %s: %s" % (index, (a0, b0), n, type(exc).__name__, str(exc)[:200]), **wit)
            return
        want = rxmodel.text_of(text, (a0, b0), circular)
        try:
            got = target_text(res)
        except Exception as e:
            ctx.violation("group-not-a-sequence:" + cls, "group(%d) returned %r" % (index, type(res).__name__), **wit)
            return
        if got != want:
            ctx.violation("group-text:" + cls,
                          "group(%d) of a match with span %r on a target of length %d returned %r but the text matched is %r" % (
                              index, (a0, b0), n, got[:80], want[:80]), got=got[:300], want=want[:300], **wit)
        if type(res).__name__ not in (type(m.rec).__name__, "SeqRecord", "Seq"):
            ctx.violation("group-type", "group(%d) returned a %s for a %s target" % (index, type(res).__name__, type(m.rec).__name__), **wit)


# ----------------------------------------------------------------------------- C14

def compare_reverse_complement(before, after, ctx, where, report, check_seq=True):
    """judge `after` as the reverse complement of `before` (snapshot_for_rotation tuple).
    Features carrying a uid are matched through it; the others (Biopython re-sorts the feature table, so their
    index means nothing) are matched as a multiset by type + qualifiers + mirrored denotation."""
    s0, la0, ft0, meta0 = before
    n = len(s0)
    s1 = str(after.seq)
    if check_seq and s1 != rc(s0):
        report("rc-sequence", "%s: sequence %r is not the reverse complement of %r" % (where, s1[:60], s0[:60]), n=n)
    la1 = {t: list(v) for t, v in after.letter_annotations.items()}
    for t, v in la0.items():
        if t not in la1:
            report("rc-letter-annotations-lost", "%s: per-letter track %r is missing from the result" % (where, t), n=n)
        elif la1[t] != list(v)[::-1]:
            report("rc-letter-annotations", "%s: per-letter track %r is not reversed with the sequence (%r -> %r)" % (where, t, list(v)[:8], la1[t][:8]), n=n)
    ft1 = feature_table(after)
    mirror = lambda p: (p if p[0] == "remote" else ("gap", (n - p[1]) % n)) if isinstance(p, tuple) else (n - 1 - p) % n
    # a part located on another record is not this molecule's: Biopython leaves it exactly as it is, strand included
    flip = lambda p, st: st if (isinstance(p, tuple) and p[0] == "remote") else (-st if st else st)

    def judge_pair(key, f0, f1):
        t0, i0, q0, p0 = f0
        t1, i1, q1, p1 = f1
        if (t0, q0) != (t1, q1):
            report("rc-feature-metadata", "%s: feature %s type/qualifiers changed: %r -> %r" % (where, key, (t0, q0), (t1, q1)), n=n)
        if p0 is None or p1 is None:
            if p0 != p1:
                report("rc-feature-location", "%s: feature %s location %r -> %r" % (where, key, p0, p1), n=n)
            return
        stranded = all(x[2] in (1, -1) for x in p0)
        d0 = denote({"parts": p0}, n)
        d1 = denote({"parts": p1}, n)
        exp = [(mirror(p), flip(p, st)) for p, st in d0]
        ctx.count("rc_feature_checks")
        if [st for _, st in d1] != [st for _, st in exp] and len(d1) == len(exp):
            report("rc-feature-strand", "%s: feature %s at %r became %r: strand not flipped" % (where, key, p0, p1), n=n, before=p0, after=p1)
        elif not same_denotation(exp, d1, n, stranded=stranded):
            report("rc-feature-location", "%s on length %d: feature %s at %r became %r, which is not the mirror image p -> n-1-p in the same reading order" % (where, n, key, p0, p1), n=n, before=p0, after=p1)
        elif len(p0) > 1 and all(x[2] is None for x in p0) and d1 != exp[::-1]:
            # a join whose parts all have strand None is read left to right in the order its parts are listed: to denote the reverse
            # complement of what it denoted, the mirrored parts have to be listed in the opposite order (Biopython does so for these
            # joins only; parts with strand 0 keep their order there, and stay compared as a set of positions)
            report("rc-feature-part-order", "%s on length %d: strand-less join %s at %r became %r: the same nucleotides, but no longer read in the mirrored order" % (where, n, key, p0, p1), n=n, before=p0, after=p1)

    keyed0 = {k: v for k, v in ft0.items() if k[0] == "uid"}
    keyed1 = {k: v for k, v in ft1.items() if k[0] == "uid"}
    if set(keyed0) != set(keyed1):
        report("rc-features-lost", "%s: feature keys %s became %s" % (where, sorted(map(str, keyed0)), sorted(map(str, keyed1))), n=n)
    for key in keyed0:
        if key in keyed1:
            judge_pair(key, keyed0[key], keyed1[key])
    plain0 = [v for k, v in ft0.items() if k[0] != "uid"]
    plain1 = [v for k, v in ft1.items() if k[0] != "uid"]
    if len(plain0) != len(plain1):
        report("rc-features-lost", "%s: %d feature(s) without uid before, %d after" % (where, len(plain0), len(plain1)), n=n)
    rest = list(plain1)
    for f0 in plain0:
        t0, i0, q0, p0 = f0
        hit = None
        for f1 in rest:
            t1, i1, q1, p1 = f1
            if (t0, q0) != (t1, q1) or (p0 is None) != (p1 is None):
                continue
            if p0 is None:
                hit = f1
                break
            stranded = all(x[2] in (1, -1) for x in p0)
            exp = [(mirror(p), flip(p, st)) for p, st in denote({"parts": p0}, n)]
            d1 = denote({"parts": p1}, n)
            if [st for _, st in d1] == [st for _, st in exp] and same_denotation(exp, d1, n, stranded=stranded):
                hit = f1
                break
        ctx.count("rc_feature_checks")
        if hit is None:
            report("rc-feature-location", "%s on length %d: the %s feature at %r (no uid) has no mirror image with the same type and qualifiers among %r" % (
                where, n, t0, p0, [x[3] for x in rest if x[0] == t0][:4]), n=n, before=p0)
        else:
            rest.remove(hit)


class ReverseComplementMonitor(object):
    """C14: post-condition on CircularRecord.reverse_complement (default arguments)."""

    def __init__(self, ctx):
        self.ctx = ctx

    def install(self):
        boot.boot()
        from moclo.record import CircularRecord

        self.CircularRecord = CircularRecord
        wrap_method(CircularRecord, "reverse_complement", self._post, lambda rec, a, kw: snapshot_for_rotation(rec))

    def _post(self, rec, a, kw, res, exc, before):
        ctx = self.ctx
        ctx.count("rc_calls")
        n = len(before[0])
        if exc is not None:
            ctx.violation("rc-raises:%s" % type(exc).__name__, "reverse_complement() raised %s: %s (features %r)" % (
                type(exc).__name__, str(exc)[:200], [v[3] for v in before[2].values()][:6]), n=n)
            return
        if not isinstance(res, self.CircularRecord):
            ctx.violation("rc-type", "reverse_complement() returned a %s, not a CircularRecord" % type(res).__name__, n=n)
            return
        if a or any(k in kw for k in ("features",)):
            return  # non-default feature handling requested by the caller
        dna = set(before[0]) <= set("ACGTacgtNnRYSWKMBDHVryswkmbdhv")
        compare_reverse_complement(before, res, ctx, "reverse_complement()", ctx.violation, check_seq=dna)
        if snapshot_for_rotation(rec) != before:
            ctx.violation("rc-mutates-operand", "reverse_complement() changed its operand", n=n)


# ----------------------------------------------------------------------------- C15

class CircleMonitor(object):
    """C15: post-conditions on CircularRecord.__contains__ and __getitem__ (every call)."""

    def __init__(self, ctx):
        self.ctx = ctx

    def install(self):
        boot.boot()
        from moclo.record import CircularRecord

        self.CircularRecord = CircularRecord
        wrap_method(CircularRecord, "__contains__", self._post_contains)
        wrap_method(CircularRecord, "__getitem__", self._post_getitem)

    def _post_contains(self, rec, a, kw, res, exc, token):
        ctx = self.ctx
        x = a[0]
        if not isinstance(x, str):
            ctx.count("contains_non_str")
            return
        ctx.count("contains_calls")
        s = str(rec.seq)
        n = len(s)
        if exc is not None:
            ctx.violation("contains-raises:%s" % type(exc).__name__, "%r in record(%r) raised %s" % (x[:40], s[:40], type(exc).__name__), s=s[:200], x=x[:200])
            return
        want = len(x) <= n and (x in s + s[: max(len(x) - 1, 0)])
        spans = len(x) <= n and x not in s and want
        ctx.hist("contains_class", "longer-than-record" if len(x) > n else "empty" if not x else
                 "present-across-origin" if spans else "present-inside" if want else "absent")
        if bool(res) != want:
            mech = "contains-longer-than-record" if len(x) > n else ("contains-across-origin" if spans else "contains-wrong")
            ctx.violation(mech, "%r in circular record %r answered %r; a string is contained exactly when it is no longer than the "
                                "record and occurs in some rotation of it (%r)" % (x[:60], s[:60], res, want), s=s[:300], x=x[:300])

    def _post_getitem(self, rec, a, kw, res, exc, token):
        ctx = self.ctx
        index = a[0]
        s = str(rec.seq)
        if not isinstance(index, slice):
            ctx.count("getitem_int_calls")
            if exc is None and isinstance(index, int) and str(res) != s[index]:
                ctx.violation("getitem-letter", "record[%r] returned %r, not %r" % (index, res, s[index]))
            return
        ctx.count("getitem_slice_calls")
        from Bio.SeqRecord import SeqRecord

        wit = dict(s=s[:300], slice=[index.start, index.stop, index.step])
        try:
            want = s[index]
        except Exception:
            return
        if exc is not None:
            ctx.violation("slice-raises:%s" % type(exc).__name__, "record[%r:%r:%r] raised %s: %s" % (index.start, index.stop, index.step, type(exc).__name__, str(exc)[:100]), **wit)
            return
        if type(res) is not SeqRecord:
            ctx.violation("slice-type", "record[%r:%r:%r] returned a %s, not a plain SeqRecord" % (index.start, index.stop, index.step, type(res).__name__), **wit)
            return
        if str(res.seq) != want:
            ctx.violation("slice-text", "record[%r:%r:%r] has text %r, the string slice is %r" % (index.start, index.stop, index.step, str(res.seq)[:60], want[:60]), **wit)
        for track, values in rec.letter_annotations.items():
            ctx.count("getitem_slice_tracks_checked")
            got = res.letter_annotations.get(track)
            if got is None or list(got) != list(values[index]):
                ctx.violation("slice-letter-annotations", "record[%r:%r:%r]: per-letter track %r of the slice is %r, not the same slice of the record's track" % (
                    index.start, index.stop, index.step, track, None if got is None else list(got)[:8]), **wit)
                break
        topo = res.annotations.get("topology")
        if isinstance(topo, str) and topo.lower() == "circular":
            ctx.violation("slice-claims-circular", "record[%r:%r:%r] carries topology=%r" % (index.start, index.stop, index.step, topo), **wit)
        if rec.annotations.get("topology") not in (None, "circular"):
            pass


# ----------------------------------------------------------------------------- C04

class FragmentMonitor(object):
    """C04: whenever overhang_start/overhang_end/target_sequence/placeholder_sequence of any
    module/vector/part entity returns, the entity's reported tuple is judged (once per entity)
    against the cut positions found by plain string search (refmodel.cuts)."""

    def __init__(self, ctx):
        self.ctx = ctx
        self.busy = False

    def install(self):
        boot.boot()
        from moclo.core.modules import AbstractModule
        from moclo.core.vectors import AbstractVector

        self.AbstractModule, self.AbstractVector = AbstractModule, AbstractVector
        for cls, names in ((AbstractModule, ("overhang_start", "overhang_end", "target_sequence")),
                           (AbstractVector, ("overhang_start", "overhang_end", "target_sequence", "placeholder_sequence"))):
            for name in names:
                wrap_method(cls, name, self._post)

    def _post(self, ent, a, kw, res, exc, token):
        if exc is not None or self.busy or getattr(ent, "_verif_c04", False):
            return
        self.busy = True
        try:
            ent._verif_c04 = True
            self.judge(ent)
        finally:
            self.busy = False

    def judge(self, ent):
        from . import refmodel, asmmon
        from .util import circ_slice

        ctx = self.ctx
        cls = type(ent)
        rec = ent.record
        topo = rec.annotations.get("topology", "circular")
        if not isinstance(topo, str) or topo.lower() != "circular":
            ctx.count("c04_skipped_linear")
            return
        enz = cls.cutter
        if not asmmon.supported_cutter(enz):
            ctx.count("c04_skipped_enzyme")
            return
        s = str(rec.seq).upper()
        if set(s) - set("ACGTN"):
            ctx.count("c04_skipped_non_acgt")
            return
        if "N" in s:
            ctx.count("c04_records_with_unknown_bases")   # an unknown base never completes a recognition site (plain string search)
        N = len(s)
        geom = refmodel.geometry(enz)
        k = geom[2]
        os_ = str(ent.overhang_start()).upper()
        oe = str(ent.overhang_end()).upper()
        tgt = str(ent.target_sequence().seq).upper()
        is_vec = isinstance(ent, self.AbstractVector)
        cs = refmodel.cuts(s, geom)
        ctx.count("c04_entities_judged")
        ctx.hist("c04_class", cls.__name__)
        ctx.hist("c04_cut_count", min(len(cs), 6))
        wit = dict(cls=cls.__name__, cutter=str(enz), seq=s if N <= 600 else s[:600] + "...", length=N,
                   overhang_start=os_, overhang_end=oe, target=tgt[:200], cuts=[(c["orient"], c["cut"], c["ovhg"]) for c in cs][:8])
        if len(os_) != k or len(oe) != k:
            ctx.violation("overhang-length", "%s reports overhangs %r/%r but %s leaves %d-nt overhangs" % (cls.__name__, os_, oe, enz, k), **wit)
            return
        pairs = []
        for c1 in cs:
            if c1["ovhg"] != os_:
                continue
            if circ_slice(s, c1["cut"], len(tgt)) != tgt or len(tgt) > N:
                continue
            end = (c1["cut"] + len(tgt)) % N
            for c2 in cs:
                if c2["cut"] == end and c2["ovhg"] == oe and c2 is not c1:
                    pairs.append((c1, c2))
        if not pairs:
            at_start = [c for c in cs if c["ovhg"] == os_]
            at_end = [c for c in cs if c["ovhg"] == oe]
            if not at_start or not at_end:
                mech = "overhang-not-at-a-cut:" + ("start" if not at_start else "end")
                msg = "%s accepted the record but its reported %s overhang %r is not the single-stranded end left by %s at any of its cut positions %s" % (
                    cls.__name__, "upstream" if not at_start else "downstream", os_ if not at_start else oe, enz, wit["cuts"])
            else:
                mech = "target-not-between-cuts"
                msg = "%s: target (%d nt, %r...) is not the stretch from a cut with overhang %r up to (excluding) a cut with overhang %r" % (
                    cls.__name__, len(tgt), tgt[:30], os_, oe)
            ctx.violation(mech + (":vector" if is_vec else ":module"), msg, **wit)
            return
        ctx.hist("c04_orientation", "%s>%s" % (pairs[0][0]["orient"], pairs[0][1]["orient"]))
        if not is_vec:
            flanked = [(c1, c2) for c1, c2 in pairs if c1["orient"] == "fwd" and c2["orient"] == "rev"]
            if flanked:
                c1, c2 = flanked[0]
                L = len(tgt)
                inside = [c for c in cs if c is not c1 and c is not c2 and 0 < (c["cut"] - c1["cut"]) % N < L]
                ctx.count("c04_flanked_targets")
                if inside:
                    ctx.violation("extra-cut-inside-target", "%s accepted a record whose flanked target holds a further %s cut at offset(s) %s" % (
                        cls.__name__, enz, [(c["cut"] - c1["cut"]) % N for c in inside]), **wit)
        if is_vec:
            ph = str(ent.placeholder_sequence().seq).upper()
            ctx.count("c04_placeholders_judged")
            ok = len(ph) + len(tgt) == N and any(
                circ_slice(s, (c1["cut"] + len(tgt)) % N, N - len(tgt)) == ph for c1, _ in pairs)
            if not ok:
                contiguous = len(ph) <= N and ph in s + s[: max(len(ph) - 1, 0)]
                mech = "placeholder-not-contiguous" if not contiguous else "placeholder-target-not-a-partition"
                ctx.violation(mech, "%s: placeholder (%d nt, %r...) %s; target has %d nt, plasmid %d" % (
                    cls.__name__, len(ph), ph[:24], "is not a contiguous stretch of the plasmid" if not contiguous else
                    "and target do not cover every nucleotide exactly once", len(tgt), N), placeholder=ph[:200], **wit)

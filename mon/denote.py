"""Feature-location denotation modulo the record length (DESIGN 2.2).

denote(loc, n): ordered list of (position mod n, strand) the location denotes,
5'->3' along its own strand for each part, parts in the order the location
lists them.  Works on Biopython location objects and on the JSON 'spec' form
used in materialised cases: {"parts": [[start, end, strand], ...]}.
"""


def parts_of(loc):
    if isinstance(loc, dict):
        return [tuple(p) for p in loc["parts"]]
    # a part located on *another* record (GenBank J00194.1:3..4) carries that record's name: (start, end, strand, ref, ref_db)
    return [(int(p.start), int(p.end), p.strand) + ((p.ref, p.ref_db) if (p.ref or p.ref_db) else ()) for p in loc.parts]


def denote(loc, n):
    """a zero-length part (a between-base site such as GenBank 4^5) denotes the *boundary* before position a:
    it is listed as (("gap", a mod n), strand) so that it moves with its flanking nucleotides"""
    out = []
    for part in parts_of(loc):
        a, b, strand = part[:3]
        if len(part) > 3:
            # nucleotides of another record: denoted by that record's name and coordinates, whatever happens to this one
            out.append((("remote",) + tuple(part[3:]) + (a, b), strand))
            continue
        if a == b and n:
            out.append((("gap", a % n), strand))
            continue
        ps = list(range(a, b))
        if strand == -1:
            ps = ps[::-1]
        out.extend((p % n, strand) for p in ps)
    return out


def same_denotation(d0, d1, n, stranded=True):
    """Equality of two denotations; a feature covering the whole circle exactly
    once has no distinguished start, so cyclic shifts are accepted for it.
    Unstranded features are compared as position multisets."""
    if not stranded:
        return sorted(str(p) for p, _ in d0) == sorted(str(p) for p, _ in d1)
    if d0 == d1:
        return True
    if len(d0) == n == len(d1) and all(isinstance(p, int) for p, _ in d0) and sorted(p for p, _ in d0) == list(range(n)):
        if [s for _, s in d0] != [s for _, s in d1]:
            return False
        s0 = [p for p, _ in d0]
        s1 = [p for p, _ in d1]
        if sorted(s1) != list(range(n)):
            return False
        j = s1.index(s0[0])
        return s1[j:] + s1[:j] == s0
    return False


def loc_from_spec(spec):
    from Bio.SeqFeature import FeatureLocation, CompoundLocation

    parts = [FeatureLocation(p[0], p[1], p[2], ref=p[3] if len(p) > 3 else None, ref_db=p[4] if len(p) > 4 else None) for p in spec["parts"]]
    return parts[0] if len(parts) == 1 else CompoundLocation(parts)


def spec_of(loc):
    return {"parts": [list(p) for p in parts_of(loc)]}

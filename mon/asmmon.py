"""Monitor on AbstractVector.assemble: records one Observation per call
(arguments, product or exception, warnings, optional deep snapshots of the
inputs) and hands it to the judges of the running property.

model_of(obs) rebuilds, from the *actual arguments* only, what the string
model (mon/refmodel.py) says about the call: fragments, overhang graph, chain.
"""
import copy
import warnings

from . import boot, refmodel
from .util import rc, canon, same_circle


class Observation(object):
    __slots__ = ("vec", "mods", "kwargs", "product", "error", "warnings", "unused_sets", "pre", "post", "model", "tag")


def supported_cutter(enz):
    try:
        return (enz is not NotImplemented and not enz.is_blunt() and not enz.is_unknown() and enz.is_5overhang()
                and not enz.is_palindromic() and not enz.cut_twice() and not (set(enz.site) - set("ACGT")) and enz.fst5 > enz.size)
    except Exception:
        return False


def fragment_of(text, geom):
    """(start, fragment text, overhang_start, overhang_end) of a plasmid with exactly one forward
    and one reverse site, else None"""
    return refmodel.module_fragment(text, geom)


def model_of(obs):
    """string-model view of an assemble() call; returns dict with key 'ok' False + 'why' when the
    inputs are outside the model (unsupported enzyme, extra/missing sites, non-ACGT letters)"""
    vec, mods = obs.vec, obs.mods
    enz = type(vec).cutter
    if not supported_cutter(enz):
        return {"ok": False, "why": "unsupported-enzyme"}
    if any(type(m).cutter is not enz for m in mods):
        return {"ok": False, "why": "mixed-cutters"}
    geom = refmodel.geometry(enz)
    texts = [str(vec.record.seq)] + [str(m.record.seq) for m in mods]
    if any(set(t.upper()) - set("ACGT") or not t for t in texts):
        return {"ok": False, "why": "non-ACGT"}
    frags = [fragment_of(t.upper(), geom) for t in texts]
    if any(f is None for f in frags):
        return {"ok": False, "why": "not-exactly-two-sites"}
    k = geom[2]
    if any(len(f[1]) < k + 2 for f in frags[1:]) or len(frags[0][1]) < k + 1:
        return {"ok": False, "why": "fragment-too-short"}
    for t, f in zip(texts, frags):
        # the discarded stretch must hold both sites and the trailing overhang
        if len(t) - len(f[1]) < 2 * (len(geom[0]) + geom[1]) + k:
            return {"ok": False, "why": "overlapping-structure"}
    v_start, v_end = frags[0][2], frags[0][3]
    starts = [f[2] for f in frags[1:]]
    ends = [f[3] for f in frags[1:]]
    dup = any(starts[i] == starts[j] or starts[i] == rc(starts[j]) for i in range(len(mods)) for j in range(i + 1, len(mods)))
    chain = None
    stall = None
    if v_start != v_end and not dup:
        cur, used = v_end, []
        while cur != v_start:
            nxt = [i for i in range(len(mods)) if starts[i] == cur and i not in used]
            if not nxt:
                stall = cur
                break
            used.append(nxt[0])
            cur = ends[nxt[0]]
        if stall is None:
            chain = used
    return {"ok": True, "geom": geom, "texts": texts, "frags": frags, "v_start": v_start, "v_end": v_end,
            "starts": starts, "ends": ends, "dup": dup, "chain": chain, "stall": stall,
            "invalid_vector": v_start == v_end,
            "complete": chain is not None and len(chain) == len(mods)}


def expected_text(model):
    return model["frags"][0][1] + "".join(model["frags"][1 + i][1] for i in model["chain"])


class AssembleMonitor(object):
    def __init__(self, ctx, judges, snapshot=None):
        self.ctx = ctx
        self.judges = list(judges)
        self.snapshot = snapshot  # callable(record) -> comparable, or None
        self.tag = None           # set by the driver to label the next call(s)
        self.last = None

    def install(self):
        boot.boot()
        from moclo.core.vectors import AbstractVector
        from moclo import errors

        self.errors = errors
        orig = AbstractVector.__dict__["assemble"]
        monitor = self

        def assemble(vec, module, *modules, **kwargs):
            obs = Observation()
            obs.vec, obs.mods, obs.kwargs = vec, [module] + list(modules), dict(kwargs)
            obs.product = obs.error = obs.model = obs.post = None
            obs.tag = monitor.tag
            recs = [vec.record] + [m.record for m in obs.mods if hasattr(m, "record")]
            obs.pre = [monitor.snapshot(r) for r in recs] if monitor.snapshot else None
            with warnings.catch_warnings(record=True) as caught:
                warnings.simplefilter("always")
                try:
                    obs.product = orig(vec, module, *modules, **kwargs)
                except BaseException as e:
                    obs.error = e
            obs.warnings = [w for w in caught]
            obs.unused_sets = [w.message.remaining for w in caught if isinstance(w.message, errors.UnusedModules)]
            if monitor.snapshot:
                obs.post = [monitor.snapshot(r) for r in recs]
            monitor.ctx.count("assemble_monitored")
            monitor.last = obs
            for j in monitor.judges:
                j(obs, monitor.ctx)
            for w in caught:  # hand the warnings on to the caller's context
                warnings.warn_explicit(w.message, w.category, w.filename, w.lineno)
            if obs.error is not None:
                raise obs.error
            return obs.product

        assemble.__verif_orig__ = orig
        assemble.__doc__ = orig.__doc__
        AbstractVector.assemble = assemble


def ids_of(obs):
    return [obs.vec.record.id] + [m.record.id for m in obs.mods]


def witness(obs):
    """plain description of the call for violation records (the replay case holds the full inputs)"""
    return {"vector": type(obs.vec).__name__, "modules": [type(m).__name__ for m in obs.mods],
            "cutter": str(type(obs.vec).cutter), "ids": ids_of(obs), "tag": obs.tag}


# ----------------------------------------------------------------------------- C01 judge

def make_c01_judge(strict_classes=()):
    """product == closed form of the string model, for complete unambiguous chains.
    strict_classes: classes for which an exception on such a chain is itself a violation
    (generic classes whose structure is derived from the enzyme)."""

    def judge(obs, ctx):
        from moclo.record import CircularRecord

        m = obs.model = obs.model or model_of(obs)
        if not m["ok"]:
            ctx.hist("c01_outside_model", m["why"])
            return
        if not m["complete"] or m["invalid_vector"] or m["dup"]:
            ctx.count("c01_not_a_complete_chain")
            return
        ctx.count("c01_judged")
        k = m["geom"][2]
        ctx.hist("c01_geometry", "site%d/n%d/k%d" % (len(m["geom"][0]), m["geom"][1], k))
        ctx.hist("c01_chain_length", len(obs.mods))
        strict = all(type(e) in strict_classes for e in [obs.vec] + obs.mods)
        w = witness(obs)
        if obs.error is not None:
            if strict:
                ctx.violation("complete-chain-raises:%s" % type(obs.error).__name__,
                              "assembling a complete unambiguous chain (%s, %d module(s)) raised %s: %s" % (
                                  w["cutter"], len(obs.mods), type(obs.error).__name__, str(obs.error)[:160]), **w)
            else:
                ctx.count("c01_nonstrict_error")
            return
        want = expected_text(m)
        got = str(obs.product.seq)
        if len(got) != len(want):
            ctx.violation("product-length", "product has %d nt, the retained fragments sum to %d (%s, chain of %d)" % (
                len(got), len(want), w["cutter"], len(obs.mods)), got=got[:400], want=want[:400], **w)
        elif not same_circle(got, want):
            ctx.violation("product-sequence", "product is not a rotation of vector fragment + module fragments in chain order (%s, chain of %d)" % (
                w["cutter"], len(obs.mods)), got=got[:400], want=want[:400], **w)
        if obs.unused_sets:
            ctx.violation("complete-chain-warns-unused", "UnusedModules warning although every module is part of the chain", **w)
        if not isinstance(obs.product, CircularRecord):
            ctx.violation("product-not-circular-record", "assemble returned a %s" % type(obs.product).__name__, **w)

    return judge


# ----------------------------------------------------------------------------- C03 judge (overhang-graph model, DESIGN 2.4)

def admissible_outcomes(m):
    """set of admissible outcome tags for a model view: 'invalid', 'duplicate', ('missing', o), 'product'"""
    out = set()
    n = len(m["starts"])
    if m["invalid_vector"]:
        out.add("invalid")
    if m["dup"]:
        out.add("duplicate")
    # every stall reachable by some walk that consumes each module at most once
    stalls = set()
    if not m["invalid_vector"]:
        stack = [(m["v_end"], frozenset())]
        seen = set()
        while stack:
            cur, used = stack.pop()
            if (cur, used) in seen:
                continue
            seen.add((cur, used))
            if cur == m["v_start"]:
                continue
            nxt = [i for i in range(n) if m["starts"][i] == cur and i not in used]
            if not nxt:
                stalls.add(cur)
            for i in nxt:
                stack.append((m["ends"][i], used | {i}))
    for s in stalls:
        out.add(("missing", s))
    if not out:
        out.add("product")
    return out


class RunawayWalk(BaseException):
    pass


def install_walk_guard(ctx, cap=64):
    """count target_sequence() extractions per module instance; a walk that stops consuming
    modules would never end - abort it on logical steps, not wall-clock"""
    boot.boot()
    from moclo.core.modules import AbstractModule

    orig = AbstractModule.target_sequence
    counts = {}

    def target_sequence(self):
        c = counts[id(self)] = counts.get(id(self), 0) + 1
        if c > cap:
            counts.clear()
            raise RunawayWalk("module %s extracted %d times in one process without being consumed" % (self.record.id, c))
        return orig(self)

    AbstractModule.target_sequence = target_sequence
    return counts


def make_c03_judge():
    def judge(obs, ctx):
        from moclo import errors
        from moclo.record import CircularRecord

        m = obs.model = obs.model or model_of(obs)
        if not m["ok"]:
            ctx.hist("c03_outside_model", m["why"])
            return
        ctx.count("c03_judged")
        adm = admissible_outcomes(m)
        w = witness(obs)
        w.update(v_start=m["v_start"], v_end=m["v_end"], module_overhangs=list(zip(m["starts"], m["ends"])))
        desc = "vector %s->%s, modules %s" % (m["v_end"], m["v_start"], ["%s>%s" % x for x in zip(m["starts"], m["ends"])])
        adm_desc = sorted(str(a) for a in adm)
        e = obs.error
        if isinstance(e, RunawayWalk):
            ctx.violation("walk-does-not-consume-modules", "%s: %s" % (desc, e), **w)
            return
        if e is not None:
            if isinstance(e, errors.DuplicateModules):
                tag = "duplicate"
            elif isinstance(e, errors.MissingModule):
                tag = ("missing", str(e.start_overhang).upper())
            elif isinstance(e, errors.InvalidSequence):
                tag = "invalid"
            else:
                ctx.violation("graph-outcome-unexpected-exception:%s" % type(e).__name__, "%s raised %s: %s" % (desc, type(e).__name__, str(e)[:200]), **w)
                return
            ctx.hist("c03_outcome", tag if isinstance(tag, str) else "missing")
            if tag not in adm:
                if tag == "duplicate":
                    dups = getattr(e, "duplicates", ())
                    same = len(dups) == 2 and dups[0] is dups[1]
                    mech = "duplicate-raised-without-two-colliding-modules" + (":one-module-named-twice" if same else "")
                elif tag == "invalid":
                    mech = "invalid-vector-raised-for-distinct-overhangs"
                else:
                    mech = "missing-module-wrong" + (":wrong-overhang" if any(isinstance(a, tuple) for a in adm) else ":chain-was-" + "/".join(adm_desc))
                ctx.violation(mech, "%s: raised %s (%s) but the admissible outcomes are %s" % (desc, type(e).__name__, str(e)[:120], adm_desc), **w)
                return
            if tag == "duplicate":
                dups = list(getattr(e, "duplicates", ()))
                idx = [next((i for i, x in enumerate(obs.mods) if x is d), None) for d in dups]
                ok = (len(dups) == 2 and None not in idx and idx[0] != idx[1] and
                      (m["starts"][idx[0]] == m["starts"][idx[1]] or m["starts"][idx[0]] == rc(m["starts"][idx[1]])))
                if not ok:
                    ctx.violation("duplicate-names-wrong-modules", "%s: DuplicateModules names %s, which are not two distinct supplied modules with colliding start overhangs" % (
                        desc, [getattr(getattr(d, "record", None), "id", d) for d in dups]), **w)
            return
        # a product was returned
        ctx.hist("c03_outcome", "product")
        if "product" not in adm:
            ctx.violation("product-returned-for-bad-graph:" + "/".join(sorted(a if isinstance(a, str) else a[0] for a in adm)),
                          "%s: a plasmid was returned although the admissible outcomes are %s" % (desc, adm_desc), **w)
            return
        chain = m["chain"]
        want = expected_text(m)
        got = str(obs.product.seq)
        if not same_circle(got, want):
            mech = "graph-product-wrong"
            if len(got) > len(want):
                mech += ":longer-than-chain"
            ctx.violation(mech, "%s: product (%d nt) is not vector + chain %s (%d nt)" % (desc, len(got), chain, len(want)), got=got[:300], want=want[:300], **w)
        unused = [i for i in range(len(obs.mods)) if i not in chain]
        named = [[next((i for i, x in enumerate(obs.mods) if x is r), None) for r in rem] for rem in obs.unused_sets]
        if unused:
            if len(named) != 1 or sorted(named[0], key=lambda x: (x is None, x)) != unused:
                ctx.violation("unused-modules-warning-wrong", "%s: modules %s are left out of the chain but UnusedModules warnings name %s" % (desc, unused, named), **w)
            ctx.count("c03_unused_checked")
        elif named:
            ctx.violation("unused-modules-warning-spurious", "%s: every module is used but UnusedModules names %s" % (desc, named), **w)

    return judge

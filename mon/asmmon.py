"""Monitor on AbstractVector.assemble: records one Observation per call
(arguments, product or exception, warnings, optional deep snapshots of the
inputs) and hands it to the judges of the running property.

model_of(obs) rebuilds, from the *actual arguments* only, what the string
model (mon/refmodel.py) says about the call: fragments, overhang graph, chain.
"""
import copy
import warnings

from . import boot, refmodel
from .util import rc, canon, same_circle


class Observation(object):
    __slots__ = ("vec", "mods", "kwargs", "product", "error", "warnings", "unused_sets", "pre", "post", "model", "tag")


def supported_cutter(enz):
    try:
        return (enz is not NotImplemented and not enz.is_blunt() and not enz.is_unknown() and enz.is_5overhang()
                and not enz.is_palindromic() and not enz.cut_twice() and not (set(enz.site) - set("ACGT")) and enz.fst5 > enz.size)
    except Exception:
        return False


def fragment_of(text, geom):
    """(start, fragment text, overhang_start, overhang_end) of a plasmid with exactly one forward
    and one reverse site, else None"""
    return refmodel.module_fragment(text, geom)


def model_of(obs):
    """string-model view of an assemble() call; returns dict with key 'ok' False + 'why' when the
    inputs are outside the model (unsupported enzyme, extra/missing sites, non-ACGT letters)"""
    vec, mods = obs.vec, obs.mods
    enz = type(vec).cutter
    if not supported_cutter(enz):
        return {"ok": False, "why": "unsupported-enzyme"}
    geom = refmodel.geometry(enz)
    # isoschizomers with the same cut (BbsI/BpiI, BsmBI/Esp3I, BsaI/Eco31I ...) are the same enzyme for the string model
    if any(not supported_cutter(type(m).cutter) or refmodel.geometry(type(m).cutter) != geom for m in mods):
        return {"ok": False, "why": "mixed-cutters"}
    texts = [str(vec.record.seq)] + [str(m.record.seq) for m in mods]
    if any(set(t.upper()) - set("ACGT") or not t for t in texts):
        return {"ok": False, "why": "non-ACGT"}
    frags = [fragment_of(t.upper(), geom) for t in texts]
    if any(f is None for f in frags):
        return {"ok": False, "why": "not-exactly-two-sites"}
    k = geom[2]
    if any(len(f[1]) < k + 2 for f in frags[1:]) or len(frags[0][1]) < k + 1:
        return {"ok": False, "why": "fragment-too-short"}
    for t, f in zip(texts, frags):
        # the discarded stretch must hold both sites and the trailing overhang
        if len(t) - len(f[1]) < 2 * (len(geom[0]) + geom[1]) + k:
            return {"ok": False, "why": "overlapping-structure"}
    v_start, v_end = frags[0][2], frags[0][3]
    starts = [f[2] for f in frags[1:]]
    ends = [f[3] for f in frags[1:]]
    dup = any(starts[i] == starts[j] or starts[i] == rc(starts[j]) for i in range(len(mods)) for j in range(i + 1, len(mods)))
    chain = None
    stall = None
    if v_start != v_end and not dup:
        cur, used = v_end, []
        while cur != v_start:
            nxt = [i for i in range(len(mods)) if starts[i] == cur and i not in used]
            if not nxt:
                stall = cur
                break
            used.append(nxt[0])
            cur = ends[nxt[0]]
        if stall is None:
            chain = used
    return {"ok": True, "geom": geom, "texts": texts, "frags": frags, "v_start": v_start, "v_end": v_end,
            "starts": starts, "ends": ends, "dup": dup, "chain": chain, "stall": stall,
            "invalid_vector": v_start == v_end,
            "complete": chain is not None and len(chain) == len(mods)}


def expected_text(model):
    return model["frags"][0][1] + "".join(model["frags"][1 + i][1] for i in model["chain"])


class AssembleMonitor(object):
    def __init__(self, ctx, judges, snapshot=None):
        self.ctx = ctx
        self.judges = list(judges)
        self.snapshot = snapshot  # callable(record) -> comparable, or None
        self.tag = None           # set by the driver to label the next call(s)
        self.keep_filters = False  # set by the driver: do not record warnings, let the caller's filters act inside the call
        self.last = None

    def install(self):
        boot.boot()
        from moclo.core.vectors import AbstractVector
        from moclo import errors

        self.errors = errors
        orig = AbstractVector.__dict__["assemble"]
        monitor = self

        def assemble(vec, module, *modules, **kwargs):
            obs = Observation()
            obs.vec, obs.mods, obs.kwargs = vec, [module] + list(modules), dict(kwargs)
            obs.product = obs.error = obs.model = obs.post = None
            obs.tag = monitor.tag
            recs = [vec.record] + [m.record for m in obs.mods if hasattr(m, "record")]
            obs.pre = [monitor.snapshot(r) for r in recs] if monitor.snapshot else None
            if monitor.keep_filters:
                # the caller's own warning filters decide (e.g. "error": a warning is raised *inside* the call, at the point
                # where the library issues it); nothing is recorded
                caught = []
                try:
                    obs.product = orig(vec, module, *modules, **kwargs)
                except BaseException as e:
                    obs.error = e
            else:
                with warnings.catch_warnings(record=True) as caught:
                    warnings.simplefilter("always")
                    try:
                        obs.product = orig(vec, module, *modules, **kwargs)
                    except BaseException as e:
                        obs.error = e
            obs.warnings = [w for w in caught]
            obs.unused_sets = [w.message.remaining for w in caught if isinstance(w.message, errors.UnusedModules)]
            if monitor.snapshot:
                obs.post = [monitor.snapshot(r) for r in recs]
            monitor.ctx.count("assemble_monitored")
            monitor.last = obs
            for j in monitor.judges:
                j(obs, monitor.ctx)
            for w in caught:  # hand the warnings on to the caller's context
                warnings.warn_explicit(w.message, w.category, w.filename, w.lineno)
            if obs.error is not None:
                raise obs.error
            return obs.product

        assemble.__verif_orig__ = orig
        assemble.__doc__ = orig.__doc__
        AbstractVector.assemble = assemble


def ids_of(obs):
    return [obs.vec.record.id] + [m.record.id for m in obs.mods]


def witness(obs):
    """plain description of the call for violation records (the replay case holds the full inputs)"""
    return {"vector": type(obs.vec).__name__, "modules": [type(m).__name__ for m in obs.mods],
            "cutter": str(type(obs.vec).cutter), "ids": ids_of(obs), "tag": obs.tag}


# ----------------------------------------------------------------------------- C01 judge

def make_c01_judge(strict_classes=()):
    """product == closed form of the string model, for complete unambiguous chains.
    strict_classes: classes for which an exception on such a chain is itself a violation
    (generic classes whose structure is derived from the enzyme)."""

    def judge(obs, ctx):
        from moclo.record import CircularRecord

        m = obs.model = obs.model or model_of(obs)
        if not m["ok"]:
            ctx.hist("c01_outside_model", m["why"])
            return
        if not m["complete"] or m["invalid_vector"] or m["dup"]:
            ctx.count("c01_not_a_complete_chain")
            return
        ctx.count("c01_judged")
        k = m["geom"][2]
        ctx.hist("c01_geometry", "site%d/n%d/k%d" % (len(m["geom"][0]), m["geom"][1], k))
        ctx.hist("c01_chain_length", len(obs.mods))
        strict = all(type(e) in strict_classes for e in [obs.vec] + obs.mods) or bool((obs.tag or {}).get("strict"))
        w = witness(obs)
        if obs.error is not None:
            if strict:
                ctx.violation("complete-chain-raises:%s" % type(obs.error).__name__,
                              "assembling a complete unambiguous chain (%s, %d module(s)) raised %s: %s" % (
                                  w["cutter"], len(obs.mods), type(obs.error).__name__, str(obs.error)[:160]), **w)
            else:
                ctx.count("c01_nonstrict_error")
            return
        want = expected_text(m)
        got = str(obs.product.seq)
        if len(got) != len(want):
            ctx.violation("product-length", "product has %d nt, the retained fragments sum to %d (%s, chain of %d)" % (
                len(got), len(want), w["cutter"], len(obs.mods)), got=got[:400], want=want[:400], **w)
        elif not same_circle(got, want):
            ctx.violation("product-sequence", "product is not a rotation of vector fragment + module fragments in chain order (%s, chain of %d)" % (
                w["cutter"], len(obs.mods)), got=got[:400], want=want[:400], **w)
        if obs.unused_sets:
            ctx.violation("complete-chain-warns-unused", "UnusedModules warning although every module is part of the chain", **w)
        if not isinstance(obs.product, CircularRecord):
            ctx.violation("product-not-circular-record", "assemble returned a %s" % type(obs.product).__name__, **w)

    return judge


# ----------------------------------------------------------------------------- C03 judge (overhang-graph model, DESIGN 2.4)

def admissible_outcomes(m):
    """set of admissible outcome tags for a model view: 'invalid', 'duplicate', ('missing', o), 'product'"""
    out = set()
    n = len(m["starts"])
    if m["invalid_vector"]:
        out.add("invalid")
    if m["dup"]:
        out.add("duplicate")
    # every stall reachable by some walk that consumes each module at most once
    stalls = set()
    if not m["invalid_vector"]:
        stack = [(m["v_end"], frozenset())]
        seen = set()
        while stack:
            cur, used = stack.pop()
            if (cur, used) in seen:
                continue
            seen.add((cur, used))
            if cur == m["v_start"]:
                continue
            nxt = [i for i in range(n) if m["starts"][i] == cur and i not in used]
            if not nxt:
                stalls.add(cur)
            for i in nxt:
                stack.append((m["ends"][i], used | {i}))
    for s in stalls:
        out.add(("missing", s))
    if not out:
        out.add("product")
    return out


class RunawayWalk(BaseException):
    pass


def install_walk_guard(ctx, cap=64):
    """count target_sequence() extractions per module instance; a walk that stops consuming
    modules would never end - abort it on logical steps, not wall-clock"""
    boot.boot()
    from moclo.core.modules import AbstractModule

    orig = AbstractModule.target_sequence
    counts = {}

    inside = [0]

    def target_sequence(self):
        if not inside[0]:
            return orig(self)          # a user looking at a part, not the chain walk
        c = counts[id(self)] = counts.get(id(self), 0) + 1
        if c > cap:
            counts.clear()
            raise RunawayWalk("module %s extracted %d times in one assembly without being consumed" % (self.record.id, c))
        return orig(self)

    AbstractModule.target_sequence = target_sequence

    # the count is per assembly: object addresses are reused by later entities, so a process-wide tally would creep up
    from moclo.core._assembly import AssemblyManager

    orig_assemble = AssemblyManager.assemble

    def assemble(self, *a, **kw):
        counts.clear()
        inside[0] += 1
        try:
            return orig_assemble(self, *a, **kw)
        finally:
            inside[0] -= 1

    AssemblyManager.assemble = assemble
    return counts


def safe_str(exc):
    try:
        return str(exc)
    except Exception as e2:
        return "<str() raised %s>" % type(e2).__name__


def make_c03_judge():
    def judge(obs, ctx):
        from moclo import errors
        from moclo.record import CircularRecord

        m = obs.model = obs.model or model_of(obs)
        if not m["ok"]:
            ctx.hist("c03_outside_model", m["why"])
            return
        ctx.count("c03_judged")
        adm = admissible_outcomes(m)
        w = witness(obs)
        w.update(v_start=m["v_start"], v_end=m["v_end"], module_overhangs=list(zip(m["starts"], m["ends"])))
        desc = "vector %s->%s, modules %s" % (m["v_end"], m["v_start"], ["%s>%s" % x for x in zip(m["starts"], m["ends"])])
        adm_desc = sorted(str(a) for a in adm)
        e = obs.error
        if isinstance(e, RunawayWalk):
            ctx.violation("walk-does-not-consume-modules", "%s: %s" % (desc, e), **w)
            return
        if e is not None:
            if isinstance(e, errors.DuplicateModules):
                tag = "duplicate"
            elif isinstance(e, errors.MissingModule):
                tag = ("missing", str(e.start_overhang).upper())
            elif isinstance(e, errors.InvalidSequence):
                tag = "invalid"
            else:
                ctx.violation("graph-outcome-unexpected-exception:%s" % type(e).__name__, "%s raised %s: %s" % (desc, type(e).__name__, safe_str(e)[:200]), **w)
                return
            ctx.hist("c03_outcome", tag if isinstance(tag, str) else "missing")
            # the raised MoClo error must be renderable (an error whose str() raises surfaces as an internal error when logged)
            try:
                str(e)
            except Exception as e2:
                ctx.violation("moclo-exception-cannot-be-rendered:%s:%s" % (type(e).__name__, type(e2).__name__),
                              "%s: str() of the raised %s raises %s: %s" % (desc, type(e).__name__, type(e2).__name__, str(e2)[:120]), **w)
                return
            if tag not in adm:
                if tag == "duplicate":
                    dups = getattr(e, "duplicates", ())
                    same = len(dups) == 2 and dups[0] is dups[1]
                    mech = "duplicate-raised-without-two-colliding-modules" + (":one-module-named-twice" if same else "")
                elif tag == "invalid":
                    mech = "invalid-vector-raised-for-distinct-overhangs"
                else:
                    mech = "missing-module-wrong" + (":wrong-overhang" if any(isinstance(a, tuple) for a in adm) else ":chain-was-" + "/".join(adm_desc))
                ctx.violation(mech, "%s: raised %s (%s) but the admissible outcomes are %s" % (desc, type(e).__name__, safe_str(e)[:120], adm_desc), **w)
                return
            if tag == "duplicate":
                dups = list(getattr(e, "duplicates", ()))
                idx = [next((i for i, x in enumerate(obs.mods) if x is d), None) for d in dups]
                ok = (len(dups) == 2 and None not in idx and idx[0] != idx[1] and
                      (m["starts"][idx[0]] == m["starts"][idx[1]] or m["starts"][idx[0]] == rc(m["starts"][idx[1]])))
                if not ok:
                    ctx.violation("duplicate-names-wrong-modules", "%s: DuplicateModules names %s, which are not two distinct supplied modules with colliding start overhangs" % (
                        desc, [getattr(getattr(d, "record", None), "id", d) for d in dups]), **w)
            return
        # a product was returned
        ctx.hist("c03_outcome", "product")
        if "product" not in adm:
            ctx.violation("product-returned-for-bad-graph:" + "/".join(sorted(a if isinstance(a, str) else a[0] for a in adm)),
                          "%s: a plasmid was returned although the admissible outcomes are %s" % (desc, adm_desc), **w)
            return
        chain = m["chain"]
        want = expected_text(m)
        got = str(obs.product.seq)
        if not same_circle(got, want):
            mech = "graph-product-wrong"
            if len(got) > len(want):
                mech += ":longer-than-chain"
            ctx.violation(mech, "%s: product (%d nt) is not vector + chain %s (%d nt)" % (desc, len(got), chain, len(want)), got=got[:300], want=want[:300], **w)
        unused = [i for i in range(len(obs.mods)) if i not in chain]
        named = [[next((i for i, x in enumerate(obs.mods) if x is r), None) for r in rem] for rem in obs.unused_sets]
        if unused:
            if len(named) != 1 or sorted(named[0], key=lambda x: (x is None, x)) != unused:
                ctx.violation("unused-modules-warning-wrong", "%s: modules %s are left out of the chain but UnusedModules warnings name %s" % (desc, unused, named), **w)
            ctx.count("c03_unused_checked")
        elif named:
            ctx.violation("unused-modules-warning-spurious", "%s: every module is used but UnusedModules names %s" % (desc, named), **w)

    return judge


# ----------------------------------------------------------------------------- C07: deep snapshots and purity judge

def flat_ref(r):
    """a reference is identified the way Biopython identifies it (Reference.__eq__): bibliographic fields *and* the span
    ("bases 1 to N") it is listed with; the same paper listed with two different spans is two reference entries"""
    h = lambda v: tuple(v) if isinstance(v, list) else v          # (authors may be a list split by author)
    return ("REF", h(getattr(r, "title", None)), h(getattr(r, "authors", None)), h(getattr(r, "journal", None)),
            h(getattr(r, "pubmed_id", None)), h(getattr(r, "comment", None)), tuple(repr(x) for x in (getattr(r, "location", None) or [])))


def _flat(v):
    from Bio.SeqFeature import Reference

    if isinstance(v, Reference) or (not isinstance(v, (str, bytes, dict, list, tuple)) and all(hasattr(v, a) for a in ("title", "authors", "journal"))):
        return flat_ref(v)       # a Bio Reference, or a reference-like object of another class
    if isinstance(v, (list, tuple)):
        return [_flat(x) for x in v]
    if isinstance(v, dict):
        return {k: _flat(x) for k, x in v.items()}
    return copy.deepcopy(v)


def deep_snapshot(rec):
    """everything C07 says must be unchanged; a missing reference list is the same as an empty one"""
    ann = {k: _flat(v) for k, v in rec.annotations.items() if not (k == "references" and not v)}

    feats = []
    for f in rec.features:
        feats.append({"type": f.type, "id": f.id, "location": repr(f.location), "qualifiers": {k: _flat(v) for k, v in (f.qualifiers or {}).items()}})
    return {"seq": str(rec.seq), "id": rec.id, "name": rec.name, "description": rec.description,
            "dbxrefs": list(rec.dbxrefs), "letter_annotations": {k: list(v) for k, v in rec.letter_annotations.items()},
            "annotations": ann, "features": feats}


def snapshot_diff(a, b):
    """names of the parts of a record snapshot that differ"""
    out = []
    for k in ("seq", "id", "name", "description", "dbxrefs", "letter_annotations"):
        if a[k] != b[k]:
            out.append(k)
    if a["annotations"] != b["annotations"]:
        keys = sorted(set(a["annotations"]) | set(b["annotations"]))
        out.extend("annotations." + k for k in keys if a["annotations"].get(k) != b["annotations"].get(k))
    if len(a["features"]) != len(b["features"]):
        out.append("features.count")
    else:
        for fa, fb in zip(a["features"], b["features"]):
            for k in ("type", "id", "location"):
                if fa[k] != fb[k]:
                    out.append("features." + k)
            if fa["qualifiers"] != fb["qualifiers"]:
                keys = sorted(set(fa["qualifiers"]) | set(fb["qualifiers"]))
                out.extend("qualifiers." + k for k in keys if fa["qualifiers"].get(k) != fb["qualifiers"].get(k))
    return sorted(set(out))


def outcome_kind(obs):
    if obs.error is not None:
        return "raised-" + type(obs.error).__name__
    return "warned" if obs.warnings and obs.unused_sets else "returned"


def make_c07_judge():
    def judge(obs, ctx):
        if obs.pre is None:
            return
        ctx.count("c07_purity_checks")
        kind = outcome_kind(obs)
        ctx.hist("c07_outcome", kind)
        ids = ids_of(obs)
        for rid, a, b in zip(ids, obs.pre, obs.post):
            if a != b:
                diff = snapshot_diff(a, b)
                ex = ""
                for fa, fb in zip(a["features"], b["features"]):
                    if fa["qualifiers"] != fb["qualifiers"]:
                        ex = " e.g. qualifiers %r -> %r" % (fa["qualifiers"], fb["qualifiers"])
                        break
                ctx.violation("input-mutated:%s:%s" % (",".join(diff), kind if not kind.startswith("raised") else "raised"),
                              "after assemble() %s, input record %r differs in %s%s" % (kind, rid, diff, ex[:300]),
                              record=rid, changed=diff, outcome=kind, tag=obs.tag)
                return

    return judge


def outcome_signature(obs_or_res):
    """comparable summary of an assemble outcome (product or exception)"""
    err = getattr(obs_or_res, "error", None) if not isinstance(obs_or_res, dict) else obs_or_res.get("error")
    prod = getattr(obs_or_res, "product", None) if not isinstance(obs_or_res, dict) else obs_or_res.get("product")
    if err is not None:
        sig = ["raised", type(err).__name__]
        if hasattr(err, "start_overhang"):
            sig.append(str(err.start_overhang).upper())
        if hasattr(err, "duplicates"):
            sig.append(sorted(getattr(getattr(d, "record", None), "id", "?") for d in err.duplicates))
        return sig
    snap = deep_snapshot(prod)
    snap["features"] = sorted(snap["features"], key=lambda f: (f["location"], f["type"], sorted(map(str, f["qualifiers"].items()))))
    return ["product", snap]


# ----------------------------------------------------------------------------- product geometry shared by C08/C09/C10/C19

def product_layout(obs):
    """Where each retained nucleotide of each input ended up in the product.

    Returns None when the call is outside the string model or did not return the
    model's product; else a list of candidate layouts (one per rotation offset at
    which the product equals the closed form - more than one only for periodic
    sequences).  A layout is {"N": product length, "segments": [(record index
    (0 = vector, 1+i = module i in argument order), fragment start in that
    record, length, offset in product)], "posmap": {(record index, position): product position}}."""
    m = obs.model = obs.model or model_of(obs)
    if not m["ok"] or m["chain"] is None or obs.product is None:
        return None
    want = expected_text(m)
    got = str(obs.product.seq).upper()
    N = len(want)
    if len(got) != N or N == 0:
        return None
    dd = want + want
    offs = []
    i = dd.find(got)
    while i != -1 and i < N:
        offs.append(i)
        i = dd.find(got, i + 1)
    if not offs:
        return None
    layouts = []
    order = [0] + [1 + c for c in m["chain"]]
    for d in offs[:4]:
        segs = []
        posmap = {}
        off = 0
        for ri in order:
            start, text = m["frags"][ri][0], m["frags"][ri][1]
            n_r = len(m["texts"][ri])
            segs.append((ri, start, len(text), (off - d) % N))
            for j in range(len(text)):
                posmap[(ri, (start + j) % n_r)] = (off + j - d) % N
            off += len(text)
        layouts.append({"N": N, "segments": segs, "posmap": posmap, "offset": d})
    return layouts


def _uid(f):
    u = (f.qualifiers or {}).get("uid")
    return u[0] if u else None


def _plain_quals(f, drop=("citation",)):
    return {k: list(v) if isinstance(v, (list, tuple)) else v for k, v in (f.qualifiers or {}).items() if k not in drop}


def make_c08_judge():
    """annotations inherited faithfully (features matched through their unique `uid` qualifier)"""
    from .denote import denote, same_denotation, parts_of

    def judge(obs, ctx):
        layouts = product_layout(obs)
        if layouts is None:
            ctx.count("c08_not_judged")
            return
        recs = [obs.vec.record] + [m.record for m in obs.mods]
        got = {}
        dup = []
        for f in obs.product.features:
            u = _uid(f)
            if u is None:
                continue
            if u in got:
                dup.append(u)
            got[u] = f
        ctx.count("c08_judged")
        w = witness(obs)
        best = None
        nplain = [0]
        for lay in layouts:
            problems = []
            N = lay["N"]
            expected = {}
            tolerated = set()
            nsurv = ndrop = 0
            for ri, r in enumerate(recs):
                n_r = len(r)
                for f in r.features:
                    u = _uid(f)
                    if u is None or f.location is None:
                        continue
                    d = denote(f.location, n_r)
                    mapped, inside, edge = [], True, False
                    for p, st in d:
                        if isinstance(p, tuple):
                            # between-base site before position g: inside when both flanking nucleotides are retained and
                            # stay adjacent; on the very edge of the fragment either outcome is tolerated
                            g = p[1]
                            left, right = lay["posmap"].get((ri, (g - 1) % n_r)), lay["posmap"].get((ri, g % n_r))
                            if left is not None and right is not None and (left + 1) % N == right:
                                mapped.append((("gap", right % N), st))
                            elif left is None and right is None:
                                inside = False
                            else:
                                edge = True
                        elif (ri, p) in lay["posmap"]:
                            mapped.append((lay["posmap"][(ri, p)], st))
                        else:
                            inside = False
                    shape = ("compound" if len(f.location.parts) > 1 else "simple") + ("/past-end" if any(int(p.end) > n_r for p in f.location.parts) else "")
                    if edge and inside:
                        tolerated.add(u)
                    elif inside:
                        nsurv += 1
                        expected[u] = (mapped, f, shape)
                    else:
                        ndrop += 1
            for u, (d, f0, shape) in expected.items():
                if u not in got:
                    problems.append(("feature-lost:" + shape.split("/")[0], "feature %s (%s, %s) lies inside the retained fragment of %s but is missing from the product" % (
                        u, f0.type, f0.location, u.split(".")[0])))
                    continue
                g = got[u]
                d1 = denote(g.location, N)
                stranded = all(st in (1, -1) for _, st in d)
                if [st for _, st in d1] != [st for _, st in d] and len(d1) == len(d):
                    problems.append(("feature-strand-changed", "feature %s: strand %s became %s" % (u, f0.location, g.location)))
                elif not same_denotation(d, d1, N, stranded=True):
                    problems.append(("feature-moved:" + shape.split("/")[0], "feature %s (%s in its source) is at %s in the product, which does not denote the same nucleotides" % (u, f0.location, g.location)))
                if g.type != f0.type or _plain_quals(g) != _plain_quals(f0):
                    problems.append(("feature-metadata-changed", "feature %s: type/qualifiers %r -> %r" % (u, (f0.type, _plain_quals(f0)), (g.type, _plain_quals(g)))))
            for u, g in got.items():
                if u not in expected and u not in tolerated:
                    problems.append(("feature-not-an-image", "product feature %s at %s is not the image of an input feature lying inside a retained fragment (a feature overlapping a discarded region must be dropped, not truncated or shifted)" % (u, g.location)))
            for u in dup:
                problems.append(("feature-duplicated", "feature %s appears twice in the product" % u))
            # input features that carry no uid (e.g. the provenance features a product inherited from earlier levels):
            # matched by type + qualifiers + mapped denotation; the provenance features generated by *this* call
            # (one per segment, naming that input) are set aside first
            ids = ids_of(obs)
            prod_plain = [g for g in obs.product.features if _uid(g) is None and g.location is not None]
            seg_spans = {}
            for ri, start, ln, off in lay["segments"]:
                seg_spans[(ids[ri], off % N, ln)] = seg_spans.get((ids[ri], off % N, ln), 0) + 1
            remaining = []
            for g in prod_plain:
                pl = (g.qualifiers or {}).get("plasmid")
                pl = pl[0] if isinstance(pl, (list, tuple)) else pl
                key = (pl, int(g.location.start) % N, len(g.location)) if g.type == "source" and len(g.location.parts) == 1 else None
                if key in seg_spans and seg_spans[key] > 0:
                    seg_spans[key] -= 1
                    continue
                remaining.append(g)
            for ri, r in enumerate(recs):
                n_r = len(r)
                for f in r.features:
                    if _uid(f) is not None or f.location is None:
                        continue
                    d = denote(f.location, n_r)
                    if not d or any(isinstance(p, tuple) for p, _ in d) or not all((ri, p) in lay["posmap"] for p, _ in d):
                        continue
                    want = [(lay["posmap"][(ri, p)], st) for p, st in d]
                    hit = next((g for g in remaining if g.type == f.type and _plain_quals(g) == _plain_quals(f)
                                and same_denotation(want, denote(g.location, N), N, stranded=True)), None)
                    nplain[0] += 1
                    if hit is None:
                        problems.append(("feature-lost:no-uid", "input %s carries a %s feature at %s (%s) inside its retained fragment; the product has no feature with that type, qualifiers and nucleotides" % (
                            ids[ri], f.type, f.location, {k: v for k, v in _plain_quals(f).items() if k in ("label", "plasmid")})))
                    else:
                        remaining.remove(hit)
            if best is None or len(problems) < len(best[0]):
                best = (problems, nsurv, ndrop)
            if not problems:
                break
        problems, nsurv, ndrop = best
        ctx.count("c08_unlabelled_features_matched", nplain[0])
        ctx.count("c08_features_expected_to_survive", nsurv)
        ctx.count("c08_features_expected_dropped", ndrop)
        if nsurv and ndrop:
            ctx.count("c08_nontrivial")
        seen = set()
        for mech, msg in problems:
            if mech not in seen:
                seen.add(mech)
                ctx.violation(mech, msg, **w)

    return judge


def make_c09_judge(check_genbank=True):
    """provenance + GenBank completeness"""
    import io
    from .denote import denote

    def judge(obs, ctx):
        from Bio import SeqIO
        from moclo.record import CircularRecord

        if obs.product is None:
            return
        p = obs.product
        w = witness(obs)
        ctx.count("c09_judged")
        N = len(p)
        if not isinstance(p, CircularRecord):
            ctx.violation("product-not-circular-record", "assemble returned a %s" % type(p).__name__, **w)
        topo = p.annotations.get("topology")
        if not isinstance(topo, str) or topo.lower() != "circular":
            ctx.violation("product-topology", "product topology annotation is %r" % (topo,), **w)
        want_id = obs.kwargs.get("id", "assembly")
        want_name = obs.kwargs.get("name", "assembly")
        if p.id != want_id or p.name != want_name:
            ctx.violation("product-id-name", "requested id/name %r/%r, product carries %r/%r" % (want_id, want_name, p.id, p.name), **w)
        comment = p.annotations.get("comment", "")
        text = "\n".join(comment) if isinstance(comment, (list, tuple)) else str(comment)
        ids = ids_of(obs)
        missing = [i for i in ids if i not in text]
        if missing:
            ctx.violation("comment-omits-input", "the product comment %r does not name %s" % (text[:200], missing), **w)
        # generated provenance features of this call
        gen_feats = [f for f in p.features if f.type == "source" and _uid(f) is None]
        own = [f for f in gen_feats if (f.qualifiers.get("plasmid") or [None])[0] in ids or f.qualifiers.get("plasmid") in ids]
        m = obs.model = obs.model or model_of(obs)
        if m["ok"] and m["chain"] is not None:
            nfrag = 1 + len(m["chain"])
            if len(own) != nfrag:
                ctx.violation("source-feature-count", "%d generated source feature(s) naming the inputs for %d retained fragment(s)" % (len(own), nfrag), **w)
            ctx.count("c09_fragment_counts_checked")
        cover = [0] * N
        seq = str(p.seq).upper()
        texts = {}      # several supplied plasmids may carry the same id: a stretch is verbatim when it occurs in one of that name
        for rid, r in zip(ids, [obs.vec.record] + [x.record for x in obs.mods]):
            texts.setdefault(rid, []).append(str(r.seq).upper())
        for f in own:
            d = denote(f.location, N)
            for pos, _ in d:
                cover[pos] += 1
            plasmid = f.qualifiers.get("plasmid")
            plasmid = plasmid[0] if isinstance(plasmid, (list, tuple)) else plasmid
            t = "".join(seq[pos] for pos, _ in d)
            if not t or not any(len(t) <= len(src) and t in src + src[: len(t) - 1] for src in texts.get(plasmid, [])):
                ctx.violation("source-feature-not-verbatim", "source feature %s naming %r covers %r..., which does not occur in that plasmid" % (f.location, plasmid, t[:30]), **w)
        if own and any(c != 1 for c in cover):
            holes = sum(1 for c in cover if c == 0)
            twice = sum(1 for c in cover if c > 1)
            ctx.violation("source-features-do-not-tile:" + ("gap" if holes else "overlap"),
                          "generated source features leave %d nucleotide(s) uncovered and cover %d more than once (product %d nt)" % (holes, twice, N), **w)
        # provenance features inherited from earlier levels must sit inside one of this call's own
        for f in gen_feats:
            if f in own:
                continue
            d = set(pos for pos, _ in denote(f.location, N))
            if not any(d <= set(pos for pos, _ in denote(o.location, N)) for o in own):
                ctx.violation("inner-provenance-not-nested", "inherited source feature %s (plasmid %r) is not nested inside a source feature of this assembly" % (f.location, f.qualifiers.get("plasmid")), **w)
            ctx.count("c09_inner_provenance_checked")
        if not check_genbank:
            return
        if not want_id or any(c.isspace() for c in want_id) or any(c.isspace() for c in (want_name or "")):
            # (the LOCUS line is built from id and name: white space in either is not GenBank-legal)
            ctx.count("c09_not_genbank_legal_id")
            return
        try:
            buf = io.StringIO()
            SeqIO.write(p, buf, "genbank")
            buf.seek(0)
            back = SeqIO.read(buf, "genbank")
        except Exception as e:
            ctx.violation("genbank-roundtrip-raises:%s" % type(e).__name__, "writing/reading the product as GenBank raised %s: %s" % (type(e).__name__, str(e)[:200]), **w)
            return
        ctx.count("c09_genbank_roundtrips")
        if str(back.seq).upper() != seq:
            ctx.violation("genbank-sequence-changed", "sequence differs after GenBank write+read", **w)
        if back.annotations.get("topology") != "circular":
            ctx.violation("genbank-topology-lost", "topology after round trip: %r" % back.annotations.get("topology"), **w)

        def key(f):
            return (f.type, tuple((int(x.start), int(x.end), 1 if x.strand is None else x.strand) for x in f.location.parts))

        a = sorted(key(f) for f in p.features)
        b = sorted(key(f) for f in back.features)
        if a != b:
            ctx.violation("genbank-features-changed", "feature types/locations differ after GenBank write+read: only before %s, only after %s" % (
                [x for x in a if x not in b][:3], [x for x in b if x not in a][:3]), **w)

    return judge


def make_c10_judge():
    """citations survive with consistent numbering"""
    import re

    BR = re.compile(r"^\[(\d+)\]$")

    def judge(obs, ctx):
        w = witness(obs)
        pre = obs.pre  # deep snapshots taken before the call (citations as written by the user)
        if pre is None:
            return
        # inputs' own indices unchanged, whatever the outcome (shared with C07)
        for rid, a, b in zip(ids_of(obs), obs.pre, obs.post):
            ca = [f["qualifiers"].get("citation") for f in a["features"]]
            cb = [f["qualifiers"].get("citation") for f in b["features"]]
            if ca != cb:
                ctx.violation("input-citation-indices-changed" + (":after-failure" if obs.error is not None else ""),
                              "citation qualifiers of input %r changed (call %s): %r -> %r" % (rid, outcome_kind(obs), ca, cb), **w)
                break
        if obs.error is not None:
            ctx.count("c10_failed_calls_checked")
        if obs.product is None:
            return
        p = obs.product
        recs = [obs.vec.record] + [m.record for m in obs.mods]
        src = {}
        for ri, snap in enumerate(pre):
            refs = snap["annotations"].get("references", [])
            for f in snap["features"]:
                u = (f["qualifiers"].get("uid") or [None])[0]
                cit = f["qualifiers"].get("citation")
                if u is not None and cit:
                    resolved = []
                    for c in cit:
                        mm = BR.match(c) if isinstance(c, str) else None
                        resolved.append(refs[int(mm.group(1)) - 1] if mm and 0 < int(mm.group(1)) <= len(refs) else ("UNRESOLVED", c))
                    src[u] = resolved
        ctx.count("c10_judged")
        prefs = p.annotations.get("references")
        flat = [flat_ref(r) for r in (prefs or [])]
        ncited = 0
        for f in p.features:
            u = _uid(f)
            cit = (f.qualifiers or {}).get("citation")
            if u is None or u not in src:
                if cit and u is not None:
                    ctx.violation("citation-appeared", "product feature %s carries citation %r but its source feature cited nothing" % (u, cit), **w)
                continue
            if not cit:
                ctx.violation("citation-lost", "feature %s cited %d reference(s) in its source, its image in the product cites none" % (u, len(src[u])), **w)
                continue
            ncited += 1
            got = []
            for c in cit:
                mm = BR.match(c) if isinstance(c, str) else None
                if mm is None:
                    ctx.violation("citation-not-bracketed-index", "feature %s: citation qualifier %r is not in GenBank bracketed-index form" % (u, c if isinstance(c, str) else type(c).__name__), **w)
                    got = None
                    break
                i = int(mm.group(1))
                if prefs is None or not 0 < i <= len(flat):
                    ctx.violation("citation-dangling", "feature %s cites [%d] but the product has %s reference(s)" % (u, i, "no" if prefs is None else len(flat)), **w)
                    got = None
                    break
                got.append(flat[i - 1])
            if got is not None and got != src[u]:
                ctx.violation("citation-points-to-other-reference", "feature %s cited %r in its source, its image cites %r" % (
                    u, [r[1:4] for r in src[u]], [r[1:4] for r in got]), **w)
        cited = set(r for rs in src.values() for r in rs)
        dupes = [r for r in set(flat) if r in cited and flat.count(r) > 1]
        if dupes:
            ctx.violation("cited-reference-listed-twice", "reference %r occurs %d times in the product's reference list" % (dupes[0][1], flat.count(dupes[0])), **w)
        if ncited:
            ctx.count("c10_products_with_surviving_citations")
            ctx.count("c10_surviving_cited_features", ncited)
    return judge

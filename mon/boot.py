"""Import the repository *from its working tree* (no copy, no install).

Mirrors tests/__init__.py: put <repo>/moclo on sys.path and extend the two
namespace packages with the kit directories.  MOCLO_REPO selects the tree
(default /repo) so the same harness can be pointed at a scratch worktree
carrying a seeded change.
"""
import os
import subprocess
import sys

REPO = os.path.abspath(os.environ.get("MOCLO_REPO", "/repo"))
KITS = ["cidar", "ytk", "ecoflex", "moclo", "plant"]
_done = False


def boot():
    global _done
    if _done:
        return
    sys.path.insert(0, os.path.join(REPO, "moclo"))
    import moclo.kits
    import moclo.registry

    for ext in KITS:
        d = os.path.join(REPO, "moclo-{}".format(ext))
        moclo.kits.__path__.append(os.path.join(d, "moclo", "kits"))
        moclo.registry.__path__.append(os.path.join(d, "moclo", "registry"))
    import warnings
    from Bio import BiopythonParserWarning

    warnings.filterwarnings("ignore", category=BiopythonParserWarning)
    warnings.filterwarnings("ignore", message="Feature qualifier key .* is longer than maximum length")
    _done = True


def build_registries():
    """Rebuild the embedded registry archives from the .gb sources of the
    working tree, exactly like tests/_utils.py::build_registries does."""
    for ext in ["cidar", "ytk", "ecoflex", "plant"]:
        d = os.path.join(REPO, "moclo-{}".format(ext))
        p = subprocess.run(
            [sys.executable, "setup.py", "build_ext", "-i"],
            cwd=d, stdout=subprocess.PIPE, stderr=subprocess.STDOUT,
        )
        if p.returncode != 0:
            raise RuntimeError("registry build failed in %s:\n%s" % (d, p.stdout.decode()[-2000:]))


def in_repo(filename):
    return os.path.abspath(filename).startswith(REPO + os.sep)

"""Runtime-monitoring harness for althonos/moclo (see /verif/DESIGN.md)."""

"""Runner, verdict discipline, evidence writer (DESIGN section 1).

A property module provides
    PROP, LEVEL, RULE, ASSUMPTIONS, DESIGN_REF
    cases(tier, seed)      -> list of small JSON-able case descriptors
    materialise(case)      -> fully written-out case (JSON-able); identity if already materialised
    execute(mat, ctx)      -> runs the real code under the monitors, reports through ctx
    FLOORS                 -> {counter name: minimum} below which the verdict is inconclusive
    optional: setup(tier), worker_init(ctx), finalize(agg, tier)
"""
import collections
import json
import os
import signal
import sys
import tempfile
import time
import traceback

from . import boot
from .util import sha

VERIF = os.path.dirname(os.path.dirname(os.path.abspath(__file__)))


class Inconclusive(Exception):
    pass


class Ctx(object):
    """Per-worker recorder: counters, histograms, violations, distinct signatures."""

    MAX_VIOL = 40

    def __init__(self, prop):
        self.prop = prop
        self.counters = collections.Counter()
        self.hists = collections.defaultdict(collections.Counter)
        self.violations = []
        self.viol_by_mech = collections.Counter()
        self.sigs = set()
        self.samples = []
        self.harness_errors = []
        self.current = None  # materialised case being executed

    def count(self, name, n=1):
        self.counters[name] += n

    def hist(self, name, key, n=1):
        self.hists[name][str(key)] += n

    def nontrivial(self, sig):
        self.sigs.add(sha(sig))

    def sample(self, obj, cap=3):
        if len(self.samples) < cap:
            self.samples.append(obj)

    def violation(self, mechanism, message, **detail):
        self.viol_by_mech[mechanism] += 1
        if len(self.violations) < self.MAX_VIOL and self.viol_by_mech[mechanism] <= 5:
            self.violations.append({
                "mechanism": mechanism, "message": message,
                "detail": detail, "case": self.current,
            })

    def dump(self):
        return {
            "counters": dict(self.counters),
            "hists": {k: dict(v) for k, v in self.hists.items()},
            "violations": self.violations,
            "viol_by_mech": dict(self.viol_by_mech),
            "sigs": sorted(self.sigs),
            "samples": self.samples,
            "harness_errors": self.harness_errors[:5],
        }


def _innermost_repo_frame(tb):
    last = None
    for fs in traceback.extract_tb(tb):
        if boot.in_repo(fs.filename):
            last = fs
    return last


def run_one(mod, case, ctx):
    """materialise + execute one case, turning stray exceptions into either a
    violation (raised from repository code) or a harness error (inconclusive)."""
    try:
        mat = mod.materialise(case)
    except Exception:
        ctx.harness_errors.append("materialise: " + traceback.format_exc()[-1500:])
        return
    ctx.current = mat
    try:
        mod.execute(mat, ctx)
    except Inconclusive as e:
        ctx.harness_errors.append("inconclusive: %s" % e)
    except Exception as e:
        fr = _innermost_repo_frame(e.__traceback__)
        if fr is not None and getattr(mod, "STRAY_IS_VIOLATION", True):
            ctx.violation(
                "stray-exception:%s@%s" % (type(e).__name__, fr.name),
                "unexpected %s escaping repository code at %s:%s (%s)" % (
                    type(e).__name__, os.path.relpath(fr.filename, boot.REPO), fr.lineno, str(e)[:200]),
                traceback=traceback.format_exc()[-1500:])
        else:
            ctx.harness_errors.append(traceback.format_exc()[-1500:])
    finally:
        ctx.current = None


def _worker(mod, cases, outpath, budget_s, tier):
    signal.alarm(int(budget_s))
    ctx = Ctx(mod.PROP)
    reach = None
    try:
        from . import reach as _reach
        reach = _reach.Recorder()
        reach.start()
    except Exception:
        reach = None
    try:
        if hasattr(mod, "worker_init"):
            mod.worker_init(ctx, tier)
        for case in cases:
            run_one(mod, case, ctx)
        if hasattr(mod, "worker_fini"):
            mod.worker_fini(ctx, tier)
    except Exception:
        ctx.harness_errors.append("worker: " + traceback.format_exc()[-1500:])
    out = ctx.dump()
    out["reached"] = sorted(reach.stop()) if reach else []
    out["lines"] = {k: sorted(v) for k, v in reach.lines.items()} if reach else {}
    with open(outpath, "w") as f:
        json.dump(out, f, default=str)
    os._exit(0)


def run_parallel(mod, cases, tier, workers, budget_s):
    """fork `workers` children over round-robin slices of `cases`; returns the
    aggregate and a list of reasons the run is inconclusive (dead/late workers)."""
    workdir = tempfile.mkdtemp(prefix="verif-%s-" % mod.PROP, dir=os.environ.get("VERIF_WORK") or None)
    # a seeded shuffle first: a worker should see a mix of case kinds / enzymes / classes, so that state leaking from one
    # kind of case into another inside a process has a chance to be observed (plain striding can align with the case order)
    import random as _random
    cases = list(cases)
    _random.Random("shuffle/%s/%s" % (mod.PROP, os.environ.get("VERIF_SEED", "0"))).shuffle(cases)
    slices = [cases[i::workers] for i in range(workers)]
    slices = [s for s in slices if s]
    pids = {}
    sys.stdout.flush()
    sys.stderr.flush()
    for i, sl in enumerate(slices):
        out = os.path.join(workdir, "w%d.json" % i)
        pid = os.fork()
        if pid == 0:
            try:
                _worker(mod, sl, out, budget_s, tier)
            finally:
                os._exit(3)
        pids[pid] = out
    problems = []
    agg = {
        "counters": collections.Counter(), "hists": collections.defaultdict(collections.Counter),
        "violations": [], "viol_by_mech": collections.Counter(), "sigs": set(), "samples": [],
        "harness_errors": [], "reached": set(), "lines": {},
    }
    deadline = time.time() + budget_s + 30
    remaining = dict(pids)
    while remaining:
        try:
            pid, status = os.waitpid(-1, os.WNOHANG)
        except ChildProcessError:
            break
        if pid == 0:
            if time.time() > deadline:
                for p in remaining:
                    try:
                        os.kill(p, signal.SIGKILL)
                    except OSError:
                        pass
                problems.append("watchdog: %d worker(s) exceeded %ds" % (len(remaining), budget_s))
                for p in list(remaining):
                    try:
                        os.waitpid(p, 0)
                    except OSError:
                        pass
                break
            time.sleep(0.02)
            continue
        if pid not in remaining:
            continue
        out = remaining.pop(pid)
        if not os.path.exists(out):
            problems.append("worker died without result (status %s)" % status)
            continue
        with open(out) as f:
            d = json.load(f)
        agg["counters"].update(d["counters"])
        for k, v in d["hists"].items():
            agg["hists"][k].update(v)
        agg["violations"].extend(d["violations"])
        agg["viol_by_mech"].update(d["viol_by_mech"])
        agg["sigs"].update(d["sigs"])
        agg["samples"].extend(d["samples"])
        agg["harness_errors"].extend(d["harness_errors"])
        agg["reached"].update(d["reached"])
        for k, v in d.get("lines", {}).items():
            agg["lines"].setdefault(k, set()).update(v)
    for f in os.listdir(workdir):
        os.unlink(os.path.join(workdir, f))
    os.rmdir(workdir)
    return agg, problems


def run_inline(mod, cases, tier):
    ctx = Ctx(mod.PROP)
    if hasattr(mod, "worker_init"):
        mod.worker_init(ctx, tier)
    for case in cases:
        run_one(mod, case, ctx)
    if hasattr(mod, "worker_fini"):
        mod.worker_fini(ctx, tier)
    d = ctx.dump()
    d["counters"] = collections.Counter(d["counters"])
    d["hists"] = collections.defaultdict(collections.Counter, {k: collections.Counter(v) for k, v in d["hists"].items()})
    d["viol_by_mech"] = collections.Counter(d["viol_by_mech"])
    d["sigs"] = set(d["sigs"])
    d["reached"] = set()
    d["lines"] = {}
    return d, []


# --------------------------------------------------------------------------- verdict

def load_known():
    path = os.path.join(VERIF, "known_findings.json")
    if not os.path.exists(path):
        return []
    with open(path) as f:
        return json.load(f)["findings"]


def classify(prop, violations, viol_by_mech):
    """Split violations into known findings (status 'known' with a matching
    mechanism key for this property) and new violations.  'fixed' entries
    suppress nothing."""
    known = [k for k in load_known() if k["property"] == prop and k["status"] == "known"]
    kn, new = [], []
    for v in violations:
        hit = next((k for k in known if v["mechanism"] == k["mechanism"]), None)
        (kn if hit else new).append((v, hit))
    return kn, new


def write_replay(prop, v):
    d = os.path.join(os.environ.get("VERIF_REPLAY_DIR") or os.path.join(VERIF, "replays"), prop)
    os.makedirs(d, exist_ok=True)
    name = sha([v["mechanism"], v["case"]]) + ".json"
    path = os.path.join(d, name)
    with open(path, "w") as f:
        json.dump({"property": prop, "mechanism": v["mechanism"], "message": v["message"],
                   "detail": v["detail"], "case": v["case"]}, f, indent=1, default=str)
    return os.path.relpath(path, VERIF) if path.startswith(VERIF + os.sep) else path


def anchored_files(prop):
    """the files a property is anchored in (properties.jsonl), plus the modules every property leans on"""
    files = []
    with open(os.path.join(VERIF, "properties.jsonl")) as f:
        for line in f:
            p = json.loads(line)
            if p["id"] == prop:
                files = list(p.get("anchors", {}).get("files", []))
    if os.environ.get("VERIF_REACH_ALL"):   # audit mode (tools/reachreport.py): every library source file
        import glob
        files = sorted(os.path.relpath(x, boot.REPO) for pat in ("moclo/moclo/**/*.py", "moclo-*/moclo/**/*.py")
                       for x in glob.glob(os.path.join(boot.REPO, pat), recursive=True))
    return files


def finish(mod, tier, seed, agg, problems, t0, ncases, exhaustive=False, extra=None):
    prop = mod.PROP
    known, new = classify(prop, agg["violations"], agg["viol_by_mech"])
    inconclusive = list(problems)
    if agg["harness_errors"]:
        inconclusive.append("harness errors (%d), first: %s" % (len(agg["harness_errors"]), agg["harness_errors"][0][-600:]))
    floors = getattr(mod, "FLOORS", {})
    floors = floors.get(tier, floors) if floors and isinstance(next(iter(floors.values())), dict) else floors
    for name, minimum in floors.items():
        if agg["counters"].get(name, 0) < minimum:
            inconclusive.append("monitor counter %s=%d below floor %d" % (name, agg["counters"].get(name, 0), minimum))
    private_not_entered = []
    for fn in getattr(mod, "MUST_REACH", []):
        # "A|B": either of two public entry points will do (`<<` may or may not be written in terms of `>>`)
        if agg["reached"] and not any(r.endswith(alt) for alt in fn.split("|") for r in agg["reached"]):
            last = fn.split(".")[-1]
            if last.startswith("_") and not last.startswith("__"):
                # a private helper is the code's own business: a refactoring may rename, inline or bypass it.  Its absence is
                # reported in the evidence; what makes a run inconclusive are the public entry points and the monitors' floors
                private_not_entered.append(fn)
            else:
                inconclusive.append("anchored function %s never entered" % fn)
    if len(agg["sigs"]) < 2:
        inconclusive.append("fewer than 2 distinct non-trivial cases")

    coverage = {
        "evaluations": int(agg["counters"].get("evaluations", ncases)),
        "distinct_nontrivial": len(agg["sigs"]),
        "rule": mod.RULE,
        "samples": agg["samples"][:4] or [{"note": "no sample recorded"}],
        "cases": ncases,
        "monitor_counters": dict(sorted(agg["counters"].items())),
        "histograms": {k: dict(sorted(v.items(), key=lambda kv: -kv[1])[:40]) for k, v in sorted(agg["hists"].items())},
        "repo_functions_reached": sorted(agg["reached"]),
        "exhaustive": bool(exhaustive),
        "violations_by_mechanism": dict(agg["viol_by_mech"]),
        "known_findings_seen": sorted({k["mechanism"] for _, k in known}),
        "inconclusive_reasons": inconclusive,
        "private_anchors_not_entered": private_not_entered,
    }
    if agg.get("lines"):
        try:
            from . import reach as _reach
            coverage["anchored_statements"] = _reach.unreached_report(boot.REPO, anchored_files(prop), agg["lines"])
        except Exception as e:  # evidence detail only, never a verdict
            coverage["anchored_statements"] = {"error": repr(e)}
    if extra:
        coverage.update(extra)
    ev = {
        "property_id": prop, "tier": tier, "seed": int(seed), "level": mod.LEVEL,
        "coverage": coverage, "assumptions": list(mod.ASSUMPTIONS),
        "wall_s": round(time.time() - t0, 2),
        "violations": int(sum(agg["viol_by_mech"].values())),
    }
    evdir = os.environ.get("VERIF_EVIDENCE_DIR") or os.path.join(VERIF, "evidence")
    os.makedirs(evdir, exist_ok=True)
    with open(os.path.join(evdir, prop + ".json"), "w") as f:
        json.dump(ev, f, indent=1, sort_keys=True, default=str)
        f.write("\n")

    seen = set()
    for v, k in known:
        if k["mechanism"] not in seen:
            seen.add(k["mechanism"])
            print("KNOWN-FINDING: property=%s %s" % (prop, k["what"]))
    if new:
        seen = set()
        for v, _ in new:
            if v["mechanism"] in seen:
                continue
            seen.add(v["mechanism"])
            path = write_replay(prop, v)
            print("VIOLATION property=%s replay=%s" % (prop, path))
            print("  mechanism: %s (%d occurrence(s))" % (v["mechanism"], agg["viol_by_mech"][v["mechanism"]]))
            print("  %s" % v["message"][:600])
        return 1
    if inconclusive:
        for r in inconclusive:
            print("INCONCLUSIVE property=%s reason=%s" % (prop, r))
        return 2
    print("HELD property=%s tier=%s seed=%s evaluations=%d distinct_nontrivial=%d wall=%.1fs" % (
        prop, tier, seed, coverage["evaluations"], coverage["distinct_nontrivial"], ev["wall_s"]))
    return 0


def main(argv):
    import argparse
    import importlib

    ap = argparse.ArgumentParser()
    ap.add_argument("prop")
    ap.add_argument("--tier", default=os.environ.get("VERIF_TIER") or "quick", choices=["quick", "thorough"])
    ap.add_argument("--replay")
    ap.add_argument("--workers", type=int, default=int(os.environ.get("VERIF_WORKERS", "0")) or min(16, os.cpu_count() or 1))
    ap.add_argument("--inline", action="store_true", help="run in-process (debugging)")
    a = ap.parse_args(argv)
    seed = int(os.environ.get("VERIF_SEED", "0") or 0)
    t0 = time.time()
    mod = importlib.import_module("mon.props." + a.prop)
    boot.boot()
    if getattr(mod, "NEEDS_REGISTRIES", False):
        boot.build_registries()
    if hasattr(mod, "setup"):
        mod.setup(a.tier)
    if a.replay:
        with open(a.replay if os.path.isabs(a.replay) else os.path.join(VERIF, a.replay)) as f:
            rep = json.load(f)
        agg, problems = run_inline(mod, [rep["case"]], a.tier)
        for v in agg["violations"]:
            print("REPLAY violation mechanism=%s: %s" % (v["mechanism"], v["message"][:800]))
        if agg["harness_errors"]:
            print("REPLAY harness error:", agg["harness_errors"][0])
            return 2
        if agg["violations"]:
            print("VIOLATION property=%s replay=%s" % (mod.PROP, a.replay))
            return 1
        print("REPLAY: no violation on this tree")
        return 0
    cases = list(mod.cases(a.tier, seed))
    budget = getattr(mod, "BUDGET_S", {"quick": 900, "thorough": 7200})[a.tier]
    if a.inline:
        agg, problems = run_inline(mod, cases, a.tier)
    else:
        agg, problems = run_parallel(mod, cases, a.tier, a.workers, budget)
    extra = mod.finalize(agg, a.tier) if hasattr(mod, "finalize") else None
    exhaustive = getattr(mod, "EXHAUSTIVE", {}).get(a.tier, False)
    return finish(mod, a.tier, seed, agg, problems, t0, len(cases), exhaustive, extra)

"""Access to the five embedded registries of the working tree (362 plasmids)."""
from . import boot

_cache = None
NAMES = ["ytk", "ptk", "cidar", "ecoflex", "plant"]


def registries():
    boot.boot()
    from moclo.registry.ytk import YTKRegistry, PTKRegistry
    from moclo.registry.cidar import CIDARRegistry
    from moclo.registry.ecoflex import EcoFlexRegistry
    from moclo.registry.plant import PlantRegistry

    return {"ytk": YTKRegistry, "ptk": PTKRegistry, "cidar": CIDARRegistry, "ecoflex": EcoFlexRegistry, "plant": PlantRegistry}


def items():
    """[(registry name, key, entity class, record)] for every item of every registry (cached per process)"""
    global _cache
    if _cache is None:
        out = []
        for name, R in registries().items():
            r = R()
            for key in sorted(r):
                it = r[key]
                out.append((name, key, type(it.entity), it.entity.record))
        _cache = out
    return _cache


def spec_of(record):
    """plain sequence spec of a registry record (features are not needed by the callers that use this)"""
    return {"id": record.id, "seq": str(record.seq)}

"""sys.monitoring (3.12) PY_START recorder restricted to repository code
objects: which moclo functions did this run actually enter?  Each code object
is reported once and then DISABLEd, so the overhead is negligible."""
import sys

from . import boot


class Recorder(object):
    TOOL = 3  # sys.monitoring.PROFILER_ID is 2; use a free slot

    def __init__(self):
        self.seen = set()
        self.active = False

    def start(self):
        mon = getattr(sys, "monitoring", None)
        if mon is None:
            return
        try:
            mon.use_tool_id(self.TOOL, "verif-reach")
        except ValueError:
            return
        root = boot.REPO

        def on_start(code, offset):
            fn = code.co_filename
            if fn.startswith(root):
                rel = fn[len(root) + 1:]
                self.seen.add("%s:%s" % (rel, code.co_qualname))
            return mon.DISABLE

        mon.register_callback(self.TOOL, mon.events.PY_START, on_start)
        mon.set_events(self.TOOL, mon.events.PY_START)
        self.active = True

    def stop(self):
        if self.active:
            mon = sys.monitoring
            mon.set_events(self.TOOL, 0)
            mon.register_callback(self.TOOL, mon.events.PY_START, None)
            mon.free_tool_id(self.TOOL)
            self.active = False
        return self.seen

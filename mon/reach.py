"""sys.monitoring (3.12) PY_START + LINE recorder restricted to repository code
objects: which moclo functions did this run actually enter, and which of their
statements did it execute?  Each code object / statement is reported once and
then DISABLEd, so the overhead is negligible.  `executable_lines` derives the
statement lines of a source file from its compiled code objects, so that the
evidence can say which statements of a property's anchored files no case of the
workload ever executed (a hole in the workload, not a verdict)."""
import os
import sys

from . import boot


class Recorder(object):
    TOOL = 3  # sys.monitoring.PROFILER_ID is 2; use a free slot

    def __init__(self):
        self.seen = set()
        self.lines = {}
        self.active = False

    def start(self):
        mon = getattr(sys, "monitoring", None)
        if mon is None:
            return
        try:
            mon.use_tool_id(self.TOOL, "verif-reach")
        except ValueError:
            return
        root = boot.REPO

        def on_start(code, offset):
            fn = code.co_filename
            if fn.startswith(root):
                rel = fn[len(root) + 1:]
                self.seen.add("%s:%s" % (rel, code.co_qualname))
            return mon.DISABLE

        lines = self.lines

        def on_line(code, line):
            fn = code.co_filename
            if fn.startswith(root):
                lines.setdefault(fn[len(root) + 1:], set()).add(line)
            return mon.DISABLE

        mon.register_callback(self.TOOL, mon.events.PY_START, on_start)
        mon.register_callback(self.TOOL, mon.events.LINE, on_line)
        mon.set_events(self.TOOL, mon.events.PY_START | mon.events.LINE)
        self.active = True

    def stop(self):
        if self.active:
            mon = sys.monitoring
            mon.set_events(self.TOOL, 0)
            mon.register_callback(self.TOOL, mon.events.PY_START, None)
            mon.register_callback(self.TOOL, mon.events.LINE, None)
            mon.free_tool_id(self.TOOL)
            self.active = False
        return self.seen


def executable_lines(path):
    """{line: qualname} of every statement line inside a function body of `path`
    (module- and class-level statements run at import and say nothing)."""
    with open(path) as f:
        src = f.read()
    out = {}

    def walk(code, infunc):
        if infunc:
            for _, _, line in code.co_lines():
                if line is not None and line != code.co_firstlineno:
                    out.setdefault(line, code.co_qualname)
        for c in code.co_consts:
            if hasattr(c, "co_lines"):
                # a class body is entered at import; functions below it are what counts
                isclass = not (c.co_flags & 0x0002) and not infunc and c.co_name != "<module>" and _is_class_body(c)
                walk(c, infunc or not isclass)

    def _is_class_body(c):
        return "__module__" in c.co_names and "__qualname__" in c.co_names

    walk(compile(src, path, "exec"), False)
    return out


def ranges(lines):
    out, run = [], []
    for n in sorted(lines):
        if run and n == run[-1] + 1:
            run.append(n)
        else:
            if run:
                out.append(run)
            run = [n]
    if run:
        out.append(run)
    return ["%d" % r[0] if len(r) == 1 else "%d-%d" % (r[0], r[-1]) for r in out]


def unreached_report(repo_root, files, reached_lines):
    """per anchored file: number of function-body statement lines, how many the workload executed, and the rest as ranges
    with the function they belong to"""
    rep = {}
    for rel in files:
        path = os.path.join(repo_root, rel)
        if not os.path.isfile(path):
            continue
        ex = executable_lines(path)
        seen = reached_lines.get(rel, set())
        miss = sorted(set(ex) - set(seen))
        byfn = {}
        for n in miss:
            byfn.setdefault(ex[n], []).append(n)
        rep[rel] = {"function_statement_lines": len(ex), "executed": len(set(ex) & set(seen)),
                    "never_executed": {fn: ranges(v) for fn, v in sorted(byfn.items())}}
    return rep

"""Independent string model of Type IIS digestion and Golden-Gate ligation.

An enzyme is the triple (site, n, k): recognition sequence over ACGT, distance
from the end of the site to the top-strand cut, 5' overhang length.  They are
read from Bio.Restriction *attributes* (site, fst5, size, ovhg) -- never from
elucidate()/catalyse(), which is what the code under test uses.

Nothing here imports moclo.
"""
from .util import rc, occurrences, circ_slice


def geometry(enz):
    """(site, n, k) of a Bio.Restriction enzyme with a 5' overhang cut downstream"""
    return enz.site, enz.fst5 - enz.size, -enz.ovhg


def supported_enzymes():
    """One representative per distinct (site, n, k) among the enzymes the
    properties quantify over: not blunt, not unknown, 5' overhang,
    non-palindromic, single cut, site over ACGT of length 5-7, cut strictly
    downstream of the site."""
    from Bio.Restriction import AllEnzymes

    out = {}
    for e in sorted(AllEnzymes, key=str):
        if e.is_blunt() or e.is_unknown() or not e.is_5overhang() or e.is_palindromic():
            continue
        if set(e.site) - set("ACGT") or e.cut_twice() or e.fst5 <= e.size:
            continue
        if not 5 <= e.size <= 7:
            continue
        out.setdefault((e.site, e.fst5 - e.size, -e.ovhg), e)
    return [out[k] for k in sorted(out)]


def cuts(s, geom):
    """All cuts of the enzyme in circular string s.

    Returns a list of dicts {orient, site_at, cut, ovhg} where `cut` is the
    index of the first nucleotide of the 5' overhang on the top strand and
    `ovhg` its text (k letters read circularly)."""
    site, n, k = geom
    N = len(s)
    out = []
    for i in occurrences(s, site):
        c = (i + len(site) + n) % N
        out.append({"orient": "fwd", "site_at": i, "cut": c, "ovhg": circ_slice(s, c, k)})
    for j in occurrences(s, rc(site)):
        c = (j - n - k) % N
        out.append({"orient": "rev", "site_at": j, "cut": c, "ovhg": circ_slice(s, c, k)})
    return out


def count_sites(s, site, circular=True):
    return len(occurrences(s, site, circular)) + len(occurrences(s, rc(site), circular))


def module_fragment(s, geom):
    """For a plasmid with exactly one forward and one reverse site: the
    retained fragment of a *module* = from the forward cut up to (not
    including) the reverse cut's overhang.  Returns (start_index, text,
    overhang_start, overhang_end) or None when the plasmid is not of that shape."""
    cs = cuts(s, geom)
    f = [c for c in cs if c["orient"] == "fwd"]
    r = [c for c in cs if c["orient"] == "rev"]
    if len(f) != 1 or len(r) != 1:
        return None
    N = len(s)
    a, b = f[0]["cut"], r[0]["cut"]
    length = (b - a) % N
    return a, circ_slice(s, a, length), f[0]["ovhg"], r[0]["ovhg"]


def vector_fragment(s, geom):
    """Retained fragment of a *vector*: from the forward cut (upstream overhang
    of the vector, which follows the placeholder) around the backbone up to
    (not including) the reverse cut's overhang.  Same return shape."""
    # in a vector the reverse site precedes the placeholder and the forward
    # site follows it; the retained stretch is again fwd cut -> rev cut.
    return module_fragment(s, geom)


def ligate(vector, modules, geom):
    """Documented closed form of the product (docs/source/theory/standard.rst):
    vector fragment followed by each module fragment in chain order.  `modules`
    must already be in chain order.  Returns the product string (one of its
    rotations: it starts with the vector's upstream overhang)."""
    vf = vector_fragment(vector, geom)
    out = [vf[1]]
    for m in modules:
        out.append(module_fragment(m, geom)[1])
    return "".join(out)


def chain_order(vector, modules, geom):
    """Order modules by following overhangs from the vector's downstream
    overhang (the reverse cut's overhang of the vector).  Returns list of
    indices or None if the chain does not close."""
    vf = vector_fragment(vector, geom)
    start, end = vf[2], vf[3]  # overhang_start (fwd cut), overhang_end (rev cut)
    frs = [module_fragment(m, geom) for m in modules]
    cur = end
    used = []
    while cur.upper() != start.upper():
        nxt = [i for i, f in enumerate(frs) if f[2].upper() == cur.upper() and i not in used]
        if not nxt:
            return None
        used.append(nxt[0])
        cur = frs[nxt[0]][3]
    return used

"""Independent back-tracking matcher for the DNA pattern language of moclo.

Language: IUPAC letters, ( ... ) capture groups (nesting allowed), and runs
X*, X*?, X+, X+? of one IUPAC letter.  Letter sets come from util.IUPAC (typed
in from the standard).  Does not use `re`; Python-regex priority (greedy:
longest first, lazy: shortest first, leftmost start).
"""
from .util import IUPAC


def parse(p):
    """-> (items, ngroups); items: ('open', g) ('close', g) ('lit', set) ('run', set, min, greedy)"""
    items = []
    stack = []
    g = 0
    i = 0
    while i < len(p):
        c = p[i]
        if c == "(":
            g += 1
            stack.append(g)
            items.append(("open", g))
            i += 1
        elif c == ")":
            items.append(("close", stack.pop()))
            i += 1
        else:
            st = IUPAC[c]
            if i + 1 < len(p) and p[i + 1] in "*+":
                mn = 0 if p[i + 1] == "*" else 1
                lazy = i + 2 < len(p) and p[i + 2] == "?"
                items.append(("run", st, mn, not lazy))
                i += 3 if lazy else 2
            else:
                items.append(("lit", st))
                i += 1
    if stack:
        raise ValueError("unbalanced pattern")
    return items, g


def match_at(items, ngroups, text, i, limit):
    """Match anchored at i, never reading text at index >= limit.
    Returns list of spans (index 0 = whole match) or None."""
    spans = [None] * (ngroups + 1)
    opens = {}

    # iterative deepening is unnecessary: recursion depth = len(items) <= ~80
    def rec(k, pos):
        if k == len(items):
            return pos
        it = items[k]
        kind = it[0]
        if kind == "open":
            old = opens.get(it[1])
            opens[it[1]] = pos
            r = rec(k + 1, pos)
            if r is None:
                opens[it[1]] = old
            return r
        if kind == "close":
            old = spans[it[1]]
            spans[it[1]] = (opens[it[1]], pos)
            r = rec(k + 1, pos)
            if r is None:
                spans[it[1]] = old
            return r
        if kind == "lit":
            if pos < limit and text[pos].upper() in it[1]:
                return rec(k + 1, pos + 1)
            return None
        _, st, mn, greedy = it
        mx = 0
        while pos + mx < limit and text[pos + mx].upper() in st:
            mx += 1
        if mx < mn:
            return None
        rng = range(mx, mn - 1, -1) if greedy else range(mn, mx + 1)
        for l in rng:
            r = rec(k + 1, pos + l)
            if r is not None:
                return r
        return None

    end = rec(0, i)
    if end is None:
        return None
    spans[0] = (i, end)
    return spans


def search(pattern, s, pos=0, endpos=None, circular=False):
    """Leftmost start in [pos, min(len, endpos)) at which the pattern matches;
    on a circular target the window is the len(s) letters starting there, read
    circularly; on a linear target s[i:]."""
    items, ng = parse(pattern)
    n = len(s)
    data = s + s if circular else s
    stop = n if endpos is None else min(n, endpos)
    for i in range(max(pos, 0), stop):
        limit = min(len(data), i + n)
        sp = match_at(items, ng, data, i, limit)
        if sp is not None:
            return sp
    return None


def text_of(s, span, circular):
    a, b = span
    n = len(s)
    if circular:
        return "".join(s[j % n] for j in range(a, b))
    return s[a:b]


def _toggle(items):
    return [(it[0], it[1], it[2], not it[3]) if it[0] == "run" else it for it in items]


def unique_occurrence(pattern, s):
    """True when the circular string s holds exactly one occurrence of the structure:
    exactly one start position matches and the group spans there do not depend on the
    greedy/lazy preference of the runs (i.e. there is only one way to match)."""
    try:
        items, ng = parse(pattern)
    except (KeyError, ValueError, IndexError):
        return _unique_occurrence_extended(pattern, s)
    n = len(s)
    data = s + s
    hits = []
    for i in range(n):
        sp = match_at(items, ng, data, i, i + n)
        if sp is not None:
            hits.append((i, sp))
            if len(hits) > 1:
                return False
    if len(hits) != 1:
        return False
    i, sp = hits[0]
    sp2 = match_at(_toggle(items), ng, data, i, i + n)
    return sp2 == sp


# ---------------------------------------------------------------- patterns outside the small language

def _translate(pattern, toggle):
    """own transcription of a pattern that uses more regex syntax than the model above (look-arounds, non-capturing
    groups, alternation): IUPAC letters -> classes from util.IUPAC, quantifier preference optionally toggled.
    Raises ValueError for syntax whose letters are not nucleotides (named groups, escapes, explicit classes)."""
    if "(?P" in pattern or "\\" in pattern or "[" in pattern or "{" in pattern:
        raise ValueError("pattern syntax outside the reference models")
    out = []
    i = 0
    while i < len(pattern):
        c = pattern[i]
        if c.isalpha():
            if c not in IUPAC:
                raise ValueError("letter %r is not a nucleotide code" % c)
            out.append("[" + "".join(sorted(IUPAC[c])) + "]")
        elif c in "*+":
            lazy = i + 1 < len(pattern) and pattern[i + 1] == "?"
            if lazy:
                i += 1
            out.append(c + ("?" if lazy != toggle else ""))
        elif c in "()?<=!:|":
            out.append(c)
        else:
            raise ValueError("character %r outside the reference models" % c)
        i += 1
    return "".join(out)


def _unique_occurrence_extended(pattern, s):
    """same question as unique_occurrence for a pattern with look-arounds / alternation, asked of Python's re on the
    harness's own transcription, with real circular context: three turns of the text, start positions in the middle one,
    a match at most one turn long"""
    import re

    rx = re.compile(_translate(pattern, False))
    rx2 = re.compile(_translate(pattern, True))
    n = len(s)
    t = s * 3
    hits = []
    for i in range(n, 2 * n):
        m = rx.match(t, i, i + n)
        if m is not None:
            hits.append((i, m))
            if len(hits) > 1:
                return False
    if len(hits) != 1:
        return False
    i, m = hits[0]
    m2 = rx2.match(t, i, i + n)
    return m2 is not None and [m2.span(g) for g in range(rx.groups + 1)] == [m.span(g) for g in range(rx.groups + 1)]

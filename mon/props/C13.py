"""C13 - Rotation of a circular record is a lossless group action."""
from .. import gen
from ..monitors import RotationMonitor, compare_rotated, snapshot_for_rotation
from . import _embedded

PROP = "C13"
LEVEL = "exploration"
DESIGN_REF = "DESIGN.md section 4, C13"
TECHNIQUE = "runtime monitor (post-condition wrapper on CircularRecord.__rshift__/__lshift__) + net-rotation reference model"
LEVEL_TEXT = ("Every >> / << call made by the workload (driver sequences, exhaustive small records, and the rotations the "
              "library itself performs inside assemblies) is judged online against an independent denotation model; held "
              "means no refuting call among the observed executions, not a proof.")
LEVEL_NOTE = "trusts CPython, Biopython Seq/SeqFeature classes and the ~60-line denotation/rotation model in mon/denote.py, mon/monitors.py"
RULE = ("cases: (a) exhaustive small: every record length 1..7 carrying every simple location [a,b) on "
        "alternating strands, every origin-spanning join, a past-the-end part and a whole-length feature, "
        "rotated by every k in [-2n-1, 2n+1] with >> and <<; (b) generated: words of pairwise distinct letters "
        "(parametricity) and DNA words of length 1..40, 0..8 features of the shapes simple/join/origin-spanning "
        "join/past-the-end/whole on strands +1/-1/None, 1-2 per-letter tracks with pairwise distinct values, "
        "operation sequences single / additive pair / multiple of length / rotate-then-inverse / 2-5 mixed; "
        "(b2) histories on one record object: rotate, edit the record or the previous result in place (identifiers, a feature's "
        "location or qualifier, a track's values, an annotation, the sequence, the order of the table - never the counts), rotate "
        "by the same amount again; "
        "(c) embedded: annotated assemblies, so that the rotations the library itself performs are judged. "
        "Every >>/<< call is judged by the RotationMonitor (sequence, tracks, every feature's denotation "
        "mapped back by -k, metadata) and the end result of each sequence against the harness's own net "
        "rotation. A case is non-trivial when some rotation amount is not a multiple of the length and the "
        "record carries a feature or track; distinct = distinct (length, feature parts, operation list).")
ASSUMPTIONS = [
    "records are CircularRecords over Seq; positions of any Biopython kind (exact, <a, >b, (a.b), a^b, one-of) are compared through their integer value; a part that refers to another record denotes that record's nucleotides and must come through untouched; the join/order operator of a compound location is not compared",
    "a feature covering the whole circle exactly once has no distinguished start: cyclic shifts of it are equal",
    "Biopython Seq/SeqFeature/location classes are trusted",
]
FLOORS = {"rotation_calls": 200, "rotation_feature_checks": 200, "law_checks": 50, "history_rotations": 100}
MUST_REACH = ["CircularRecord.__rshift__", "CircularRecord.__lshift__"]
BUDGET_S = {"quick": 600, "thorough": 3600}
LETTERS = "abcdefghijklmnopqrstuvwxyzABCDEFGHIJKLMNOPQRSTUVWXYZ0123456789"


def cases(tier, seed):
    out = [{"kind": "small", "n": n} for n in range(1, 8)]
    ngen = 400 if tier == "quick" else 300000
    out += [{"kind": "gen", "i": i, "seed": seed} for i in range(ngen)]
    out += _embedded.assembly_cases(seed, 40 if tier == "quick" else 8000)
    # histories on one record object: rotate, edit the record (or an earlier result) in place, rotate again by the same amount
    out += [{"kind": "hist", "i": i, "seed": seed} for i in range(200 if tier == "quick" else 60000)]
    if tier == "thorough":
        out.append({"kind": "repo-tests"})
    return out


def _small(n):
    feats = []
    u = 0
    strands = [1, -1, None]
    for a in range(n):
        for b in range(a + 1, n + 1):
            feats.append({"type": "misc", "parts": [[a, b, strands[u % 3]]], "quals": {"uid": ["f%d" % u]}})
            u += 1
    for a in range(1, n):
        for b in range(1, a + 1):
            st = strands[u % 2]
            parts = [[a, n, st], [0, b, st]]
            if st == -1:
                parts = parts[::-1]
            feats.append({"type": "misc", "parts": parts, "quals": {"uid": ["f%d" % u]}})
            u += 1
    if n > 1:
        feats.append({"type": "misc", "parts": [[n - 1, n + 1, 1]], "quals": {"uid": ["past"]}})
    feats.append({"type": "source", "parts": [[0, n, 1]], "quals": {"uid": ["whole"]}})
    rec = {"id": "small%d" % n, "seq": LETTERS[:n], "features": feats,
           "letters": {"q": list(range(n))}, "annotations": {"topology": "circular", "k": [1, 2]}}
    ops = []
    for k in range(-2 * n - 1, 2 * n + 2):
        ops.append([[">>", k]])
        ops.append([["<<", k]])
    return {"kind": "small", "rec": rec, "opseqs": ops}


def materialise(case):
    if "rec" in case or case.get("kind") in ("assembly-mat", "repo-tests"):
        return case
    if case["kind"] == "small":
        return _small(case["n"])
    if case["kind"] == "assembly":
        return _embedded.materialise_assembly(case)
    if case["kind"] == "hist":
        base = materialise({"kind": "gen", "i": 10 ** 7 + case["i"], "seed": case["seed"]})
        rh = gen.rng_for(case["seed"], PROP, "hist", case["i"])
        n = len(base["rec"]["seq"])
        ks = [rh.randint(-2 * n, 2 * n) for _ in range(rh.randint(1, 2))] + [rh.choice([0, n, 1])]
        prog = []
        for _ in range(rh.randint(2, 5)):
            k = rh.choice(ks)
            prog.append(["rot", rh.choice([">>", ">>", "<<"]), k])
            prog.append([rh.choice(["edit-orig", "edit-orig", "edit-result"]),
                         rh.choice(["rename", "move-feature", "qualifier", "track", "annotation", "seq", "swap-features", "describe"]), rh.randrange(10 ** 6)])
            prog.append(["rot", prog[-2][1], k])      # the same rotation again: it must show the record as it is NOW
        return {"kind": "hist-mat", "rec": base["rec"], "prog": prog}
    rng = gen.rng_for(case["seed"], PROP, case["i"])
    n = rng.choice([1, 2, 3]) if rng.random() < 0.1 else rng.randint(1, 40)
    r = rng.random()
    if r < 0.55:
        seq = "".join(rng.sample(LETTERS, n))
    elif r < 0.7:
        # a periodic word (tandem repeat, homopolymer stuffer): rotating by its period maps the letters, not the annotation, onto themselves
        unit = gen.rand_dna(rng, rng.randint(1, 4))
        seq = (unit * (n // len(unit) + 1))[: max(len(unit) * max(1, n // len(unit)), len(unit))]
        n = len(seq)
    else:
        seq = gen.rand_dna(rng, n)
    feats = []
    for j in range(rng.randint(0, 8)):
        parts, shape = gen.rand_feature_parts(rng, n)
        feats.append({"type": rng.choice(["CDS", "misc_feature", "source", "promoter"]), "parts": parts,
                      "quals": {"uid": ["u%d" % j], "note": ["n%d" % j]}})
    rdup = gen.rng_for(case["seed"], PROP, "dup", case["i"])   # own stream: the draws above and below stay what they were
    if feats and rdup.random() < 0.2:
        # the same annotation listed twice (exact duplicate, as plasmid editors export them)
        import copy
        feats.insert(rdup.randint(0, len(feats)), copy.deepcopy(rdup.choice(feats)))
    for f in feats:
        # fuzzy positions (<5, >8, (5.8), 5^8, one-of(5,8)) on one feature in five: they denote the same nucleotides as exact ones
        if f["parts"] is not None and rdup.random() < 0.2:
            f["fuzzy"] = gen.fuzzy_kinds(rdup, len(f["parts"]))
    if rdup.random() < 0.12:
        # a feature without any location, somewhere in the table (after a located one, so that a stale location would show)
        feats.insert(rdup.randint(0, len(feats)), {"type": "unlocated", "parts": None, "quals": {"uid": ["noloc"], "note": ["nowhere"]}})
    if rdup.random() < 0.15:
        # a feature (or one exon of a join) located on another record: its coordinates are that record's, at any distance
        a = rdup.randint(0, 3 * n + 5)
        remote = [a, a + rdup.randint(1, 2 * n + 3), rdup.choice([1, -1, None]), "J%05d.1" % rdup.randint(0, 99999), rdup.choice([None, None, "GenBank"])]
        parts = [remote]
        if rdup.random() < 0.5 and n >= 2:
            x = rdup.randrange(n - 1)
            local = [x, rdup.randint(x + 1, n), remote[2]]
            parts = [local, remote] if rdup.random() < 0.5 else [remote, local]
        feats.insert(rdup.randint(0, len(feats)), {"type": "misc_feature", "parts": parts, "quals": {"uid": ["remote"], "note": ["elsewhere"]}})
    letters = {}
    if rng.random() < 0.7:
        letters["q"] = list(range(100, 100 + n))
    if rng.random() < 0.3:
        letters["s"] = ["v%d" % j for j in range(n)]
    if rng.random() < 0.25:
        letters["secondary_structure"] = "".join(rng.sample(LETTERS, n)) if n <= len(LETTERS) else gen.rand_dna(rng, n, ".()")   # a string-valued track
    if rng.random() < 0.2:
        letters["tup_q"] = list(range(200, 200 + n))                                                                            # a tuple-valued track
    rid = gen.rng_for(case["seed"], PROP, "feature-ids", case["i"])
    for j, f in enumerate(feats):
        if rid.random() < 0.4:
            f["fid"] = "feat%04d" % j            # identifiers as annotation pipelines assign them
        if f["parts"] is not None and rid.random() < 0.12:
            f["parts"] = [[p[0], p[1], 0 if p[2] is None else p[2]] + list(p[3:]) for p in f["parts"]]     # strand 0: "stranded, strand unknown" (GFF3 '?')
    rec = {"id": "r%d" % case["i"], "name": "nm", "seq": seq, "features": feats, "letters": letters,
           "annotations": {"topology": "circular", "molecule_type": "DNA", "tags": ["x"]}, "dbxrefs": ["db:1"]}
    mode = rng.choice(["single", "additive", "identity", "inverse", "mixed"])
    def rk():
        r = rng.random()
        if r < 0.08:
            sign, mult, rest = rng.choice([-1, 1]), rng.randint(10 ** 3, 10 ** 9), rng.randint(0, n)
            if mult % 3 == 0:
                mult = mult ** 7 + 1            # far beyond what a C double (or a 64-bit integer) represents exactly
            elif mult % 21 == 1:
                mult = 2 ** 1030 + mult         # beyond the range of a double altogether
            return sign * (mult * n + rest)                                                        # huge amounts
        if r < 0.16:
            return rng.choice([n, -n, n - 1, -(n - 1), n + 1, 2 * n, 0])                           # around the length
        return rng.randint(-3 * n, 3 * n)
    if mode == "single":
        ops = [[">>", rk()]]
    elif mode == "additive":
        ops = [[">>", rk()], [">>", rk()]]
    elif mode == "identity":
        ops = [[rng.choice([">>", "<<"]), rng.randint(-3, 3) * n]]
    elif mode == "inverse":
        k = rk()
        ops = [[">>", k], ["<<", k]] if rng.random() < 0.5 else [["<<", k], [">>", k]]
    else:
        ops = [[rng.choice([">>", "<<"]), rk()] for _ in range(rng.randint(2, 5))]
    return {"kind": "gen", "mode": mode, "rec": rec, "opseqs": [ops]}


_mon = None


def _edit(rec, what, r, ctx):
    """edit a record in place the way a script does between two uses; counts (features, tracks) never change, so that a
    cheap "was it edited?" test does not notice"""
    import random
    from Bio.Seq import Seq
    from Bio.SeqFeature import FeatureLocation

    rr = random.Random(r)
    n = len(rec.seq)
    located = [f for f in rec.features if f.location is not None and not any(p.ref for p in f.location.parts)]
    if what == "rename":
        rec.id, rec.name = (rec.id or "") + "_v2", "renamed"
    elif what == "describe":
        rec.description = "edited %d" % r
    elif what == "move-feature" and located:
        f = rr.choice(located)
        a = rr.randrange(n)
        f.location = FeatureLocation(a, rr.randint(a + 1, n), rr.choice([1, -1, None]))
    elif what == "qualifier" and rec.features:
        rr.choice(rec.features).qualifiers["note"] = ["edited %d" % r]
    elif what == "track" and rec.letter_annotations:
        k = rr.choice(sorted(rec.letter_annotations))
        v = rec.letter_annotations[k]
        rec.letter_annotations[k] = v[::-1]
    elif what == "annotation":
        rec.annotations["tags"] = list(rec.annotations.get("tags", [])) + ["t%d" % r]
    elif what == "seq":
        rec.seq = Seq(str(rec.seq)[::-1].swapcase())
    elif what == "swap-features" and len(rec.features) > 1:
        rec.features.reverse()
    else:
        rec.description = "touched %d" % r
    ctx.hist("history_edit", what)


def _history(mat, ctx):
    """rotate / edit in place / rotate by the same amount again, on ONE record object and its earlier results.  Every >> / <<
    is judged by the RotationMonitor against the operand as it is at the moment of the call, so a result remembered from
    before the edit (or an earlier result handed out again after the caller changed it) shows as a refuted post-condition."""
    ctx.count("evaluations")
    rec = gen.make_record(mat["rec"])
    results = []
    for step in mat["prog"]:
        if step[0] == "rot":
            results.append((rec >> step[2]) if step[1] == ">>" else (rec << step[2]))
            ctx.count("history_rotations")
        elif step[0] == "edit-orig":
            _edit(rec, step[1], step[2], ctx)
        elif results:
            _edit(results[-1], step[1], step[2], ctx)
            ctx.count("history_edits_of_results")
    ctx.count("law_checks")
    ctx.hist("mode", "history")
    ctx.nontrivial(["hist", len(mat["rec"]["seq"]), [f["parts"] for f in mat["rec"]["features"]], mat["prog"]])


def worker_init(ctx, tier):
    global _mon
    _mon = RotationMonitor(ctx)
    _mon.install()


def execute(mat, ctx):
    if mat["kind"] == "repo-tests":
        _embedded.run_repo_tests_under_monitors(ctx, ["rotation"], PROP)
        return
    if mat["kind"] == "assembly-mat":
        before = ctx.counters["rotation_calls"]
        _embedded.run_assembly(mat, ctx)
        if ctx.counters["rotation_calls"] > before:
            ctx.count("embedded_assemblies_with_rotations")
            ctx.nontrivial(["asm", mat["enzyme"], [m["seq"] for m in mat["modules"]]])
        return
    if mat["kind"] == "hist-mat":
        _history(mat, ctx)
        return
    n = len(mat["rec"]["seq"])
    for ops in mat["opseqs"]:
        ctx.count("evaluations")
        rec = gen.make_record(mat["rec"])
        h = (n * 5 + len(mat["rec"]["features"]) + len(ops)) % 7
        if h < 3:
            # identifiers emptied after the record was made (clean FASTA headers, anonymous records): they are what is carried over
            if h == 0:
                rec.description = ""
            elif h == 1:
                rec.id, rec.name = "", ""
            else:
                rec.id, rec.description = None, ""
            ctx.count("records_with_emptied_identifiers")
        before = snapshot_for_rotation(rec)
        cur = rec
        net = 0
        for op, k in ops:
            cur = (cur >> k) if op == ">>" else (cur << k)
            net += k if op == ">>" else -k
        ctx.count("law_checks")
        ctx.hist("mode", mat.get("mode", "small"))

        def report(mech, msg, **d):
            ctx.violation("law:" + mech, "after %s: %s" % (ops, msg), ops=ops, **d)

        compare_rotated(before, cur, net, ctx, "sequence %s = net rotation" % (ops,), report)
        if any(k % n for _, k in ops) and (mat["rec"]["features"] or mat["rec"].get("letters")):
            ctx.nontrivial([n, [f["parts"] for f in mat["rec"]["features"]], ops])
    ctx.sample({"length": n, "features": [f["parts"] for f in mat["rec"]["features"]][:6], "ops": mat["opseqs"][:3]})

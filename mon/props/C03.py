"""C03 - Ambiguous or incomplete module sets never produce a plasmid."""
import itertools

from .. import gen, refmodel, asmmon
from ..util import rc

PROP = "C03"
LEVEL = "exploration"
DESIGN_REF = "DESIGN.md section 4, C03 and 2.4"
TECHNIQUE = "runtime monitor (post-condition on AbstractVector.assemble) against an overhang-graph model; exhaustive small graphs + random graphs; logical-step guard on the walk"
LEVEL_TEXT = ("Every assemble() call over exhaustively enumerated overhang graphs (alphabet with equal, reverse-complementary and "
              "palindromic overhangs; every vector, every multiset of modules up to the bound, every distinct permutation) is judged "
              "online: the outcome class, the overhang/modules named by the error, the product, the modules named by the warning. "
              "Exhaustive for the stated bound only; beyond it random graphs. A walk guard aborts non-consuming walks on logical steps.")
LEVEL_NOTE = "trusts the 40-line admissible-outcome model in mon/asmmon.py and the string model; any of several simultaneously applicable errors is accepted"
RULE = ("exhaustive: alphabet {AAAC, GTTT(=rc AAAC), ACGT(palindrome), CCTA, TTGA, ATTA, TAAT(=rc ATTA, both reading the same backwards)}, "
        "all 49 vectors (7 with equal overhangs) x every "
        "multiset of <=2 (quick; thorough <=3) modules over the 49 (start,end) types x every distinct permutation; quick adds 3000 "
        "sampled triples with all permutations; random graphs of 4..7 modules over pools of 6..8 overhangs for BsaI (k=4), BspQI (k=3) "
        "and a k=5 enzyme. Non-trivial = the graph has at least one module whose start or end overhang equals, complements or "
        "coincides with another overhang of the call (i.e. not a set of unrelated overhangs); distinct = distinct (vector, ordered module types)."
        " Second session: in every other run each plasmid is written from an origin of its own (string rotation), and in half of the runs module records share an id (all unnamed, or in pairs).")
ASSUMPTIONS = [
    "plasmids are well-formed (exactly one site per strand); when several error conditions hold at once any of the matching errors is accepted",
    "a product is accepted only when no error condition holds",
]
FLOORS = {"c03_judged": 5000, "c03_unused_checked": 100, "c03_runs_with_plasmids_at_other_origins": 1000, "c03_runs_with_shared_record_ids": 1000}
MUST_REACH = ["AbstractVector.assemble", "AssemblyManager._generate_modules_map", "AssemblyManager._generate_assembly"]
BUDGET_S = {"quick": 900, "thorough": 7200}
EXHAUSTIVE = {"quick": False, "thorough": False}
ALPHA = ["AAAC", "GTTT", "ACGT", "CCTA", "TTGA", "ATTA", "TAAT"]


def cases(tier, seed):
    types = [(a, b) for a in ALPHA for b in ALPHA]
    out = []
    maxk = 2 if tier == "quick" else 3
    for v in types:
        batch = []
        for size in range(1, maxk + 1):
            for combo in itertools.combinations_with_replacement(types, size):
                batch.append([list(t) for t in combo])
                if len(batch) >= 60:
                    out.append({"kind": "graphs", "enzyme": "BsaI", "v": list(v), "sets": batch})
                    batch = []
        if batch:
            out.append({"kind": "graphs", "enzyme": "BsaI", "v": list(v), "sets": batch})
    if tier == "quick":
        rng = gen.rng_for(seed, PROP, "triples")
        for j in range(0, 3000, 50):
            sets = [[list(rng.choice(types)) for _ in range(3)] for _ in range(50)]
            out.append({"kind": "graphs", "enzyme": "BsaI", "v": list(rng.choice(types)), "sets": sets})
    nrand = 600 if tier == "quick" else 200000
    k5 = [n for n in gen.enzyme_names() if refmodel.geometry(gen.enzyme(n))[2] == 5][:1]
    enzs = ["BsaI", "BspQI"] + k5
    for j in range(0, nrand, 20):
        out.append({"kind": "random", "enzyme": enzs[(j // 20) % len(enzs)], "seed": seed, "from": j, "count": 20})
    return out


def materialise(case):
    return case


_seqs = {}


def _plasmid(enzyme, role, a, b):
    """deterministic well-formed plasmid of a given (start, end) type"""
    key = (enzyme, role, a, b)
    if key not in _seqs:
        rng = gen.rng_for("c03-plasmid", *key)
        geom = refmodel.geometry(gen.enzyme(enzyme))
        if role == "M":
            _seqs[key] = gen.build_module(rng, geom, a, b, 6, 5)["seq"]
        else:
            _seqs[key] = gen.build_vector(rng, geom, o_start=a, o_end=b, plen=5, blen=8)["seq"]
    return _seqs[key]


_mon = None


def worker_init(ctx, tier):
    global _mon
    _mon = asmmon.AssembleMonitor(ctx, [asmmon.make_c03_judge()])
    _mon.install()
    asmmon.install_walk_guard(ctx)


_typed_cache = {}


def _typed(enzyme):
    from moclo.core.parts import AbstractPart
    if enzyme not in _typed_cache:
        V, M = gen.generic_classes(enzyme)
        k = refmodel.geometry(gen.enzyme(enzyme))[2]
        sig = ("N" * k, "N" * k)
        _typed_cache[enzyme] = (type(str("TypedV_" + enzyme), (AbstractPart, V), {"cutter": gen.enzyme(enzyme), "signature": sig}),
                                type(str("TypedM_" + enzyme), (AbstractPart, M), {"cutter": gen.enzyme(enzyme), "signature": sig}))
    return _typed_cache[enzyme]


def _run(ctx, enzyme, v, mods, order=None):
    """one assemble() over fresh entities; v = (start, end) of the vector, mods = [(start, end)] in argument order"""
    from Bio.Seq import Seq
    from moclo.record import CircularRecord

    V, M = gen.generic_classes(enzyme)
    if (len(mods) + sum(map(ord, v[0] + v[1]))) % 3 == 0:
        # the same graph with vector and modules typed by part classes whose signatures are all wildcards
        V, M = _typed(enzyme)
        ctx.count("c03_typed_part_classes_runs")
    # record-wide annotations of any shape: the outcome is a function of the overhang graph, not of the plasmids' metadata
    ann = lambda *k: gen.annotation_variety("c03", enzyme, *k)
    # ... nor of where each plasmid's file happens to start: in every other run each plasmid is written from an origin of
    # its own (string rotation, not the library's), which puts the origin inside an overhang or a site of some of them
    turn = (len(mods) + sum(map(ord, v[0] + v[1] + "".join(a + b for a, b in mods)))) % 2 == 1

    def text(role, a, b, i):
        t = _plasmid(enzyme, role, a, b)
        if turn:
            o = gen.rng_for("c03-origin", enzyme, role, a, b, i, len(mods)).randrange(len(t))
            t = t[o:] + t[:o]
        return t

    if turn:
        ctx.count("c03_runs_with_plasmids_at_other_origins")
    vec = V(CircularRecord(Seq(text("V", v[0], v[1], -1)), "v", annotations=ann("v", v[0], v[1], len(mods))))
    # modules are told apart as objects, not by what their records are called: in one run in four every module record carries
    # the same id (plasmids built in a script and never named), in another one the ids pair up
    idmode = (2 * len(mods) + sum(map(ord, v[1] + "".join(b for a, b in mods)))) % 4
    mid = (lambda i: "unnamed") if idmode == 0 else (lambda i: "m%d" % (i // 2)) if idmode == 1 else (lambda i: "m%d" % i)
    if idmode < 2 and len(mods) > 1:
        ctx.count("c03_runs_with_shared_record_ids")
    ents = [M(CircularRecord(Seq(text("M", a, b, i)), mid(i), annotations=ann("m", a, b, i))) for i, (a, b) in enumerate(mods)]
    if len(set(mods)) < len(mods) and (len(mods) + ord(v[0][0])) % 2 == 0:
        # the same plasmid supplied twice as two entities that wrap one and the same record object
        first = {}
        for i, t in enumerate(mods):
            if t in first:
                ents[i] = M(ents[first[t]].record)
                ctx.count("c03_entities_sharing_a_record")
            else:
                first[t] = i
    ctx.count("evaluations")
    _mon.tag = {"v": list(v), "mods": [list(x) for x in mods]}
    import warnings
    with warnings.catch_warnings():
        warnings.simplefilter("ignore")
        try:
            vec.assemble(*ents)
        except BaseException as e:
            if not isinstance(e, (Exception, asmmon.RunawayWalk)):
                raise
    ovs = [v[0], v[1]] + [o for t in mods for o in t]
    related = len(set(ovs)) < len(ovs) or any(rc(o) in ovs for o in ovs)
    if related:
        ctx.nontrivial([enzyme, list(v), [list(x) for x in mods]])


def execute(mat, ctx):
    if mat["kind"] == "graphs":
        v = tuple(mat["v"])
        for s in mat["sets"]:
            mods = [tuple(t) for t in s]
            for perm in sorted(set(itertools.permutations(mods))):
                _run(ctx, mat["enzyme"], v, list(perm))
        ctx.sample({"kind": "graphs", "vector (start,end)": mat["v"], "module multisets": mat["sets"][:3], "permutations": "all distinct"}, cap=1)
        return
    geom = refmodel.geometry(gen.enzyme(mat["enzyme"]))
    k = geom[2]
    for j in range(mat["from"], mat["from"] + mat["count"]):
        rng = gen.rng_for(mat["seed"], PROP, "random", mat["enzyme"], j)
        pool = []
        while len(pool) < rng.randint(6, 8):
            o = gen.rand_dna(rng, k)
            if geom[0] in o or rc(geom[0]) in o:
                continue
            if rng.random() < 0.15:
                o = (o[: (k + 1) // 2] + o[: k // 2][::-1])      # reads the same backwards
            if o not in pool:
                pool.append(o)
                for rel in (rc(o), o[::-1], rc(o)[::-1]):           # reverse complement, plain reversal, plain complement
                    if rng.random() < 0.25 and rel not in pool and geom[0] not in rel and rc(geom[0]) not in rel:
                        pool.append(rel)
        nm = rng.randint(4, 7)
        if rng.random() < 0.5:
            # mostly-chained graph: a path with a few perturbations (forks, dead ends, cycles)
            path = [rng.choice(pool) for _ in range(nm + 1)]
            mods = [(path[i], path[i + 1]) for i in range(nm)]
            v = (path[-1], path[0])
            for _ in range(rng.randint(0, 2)):
                i = rng.randrange(nm)
                mods[i] = (rng.choice(pool), mods[i][1]) if rng.random() < 0.5 else (mods[i][0], rng.choice(pool))
        else:
            mods = [(rng.choice(pool), rng.choice(pool)) for _ in range(nm)]
            v = (rng.choice(pool), rng.choice(pool))
        rng.shuffle(mods)
        try:
            for a, b in mods:
                _plasmid(mat["enzyme"], "M", a, b)
            _plasmid(mat["enzyme"], "V", v[0], v[1])
        except RuntimeError:
            ctx.count("skipped_unbuildable_graph")
            continue
        _run(ctx, mat["enzyme"], v, mods)
        if j % 20 == 0:
            ctx.sample({"kind": "random", "enzyme": mat["enzyme"], "vector (start,end)": list(v), "modules": [list(x) for x in mods]}, cap=3)

"""C08 - Annotations are inherited faithfully by the assembled plasmid."""
from .. import gen, regs, asmmon
from . import _embedded

PROP = "C08"
LEVEL = "exploration"
DESIGN_REF = "DESIGN.md section 4, C08"
TECHNIQUE = "runtime monitor (post-condition on AbstractVector.assemble) mapping every input feature through an independent position map and comparing denotations modulo the record length"
LEVEL_TEXT = ("Each assemble() call on annotated inputs is intercepted; the monitor derives from the string model where every retained "
              "nucleotide of every input lands in the product, maps the denotation of every input feature (matched through a unique "
              "uid qualifier) and demands: inside a retained fragment => present with the same type, qualifiers, strand and nucleotides; "
              "anything else => absent. Feature tables are adversarial (snapped to fragment boundaries, origin-spanning, multi-part).")
LEVEL_NOTE = "trusts mon/refmodel.py (fragments), mon/denote.py (locations read modulo the record length) and Biopython's location classes"
RULE = ("generated assemblies over every supported geometry, 1..4 modules, each record with 0..8 features: uniform shapes (simple, "
        "join, origin-spanning join, past-the-end part, whole length; strands +1/-1/None) and boundary-snapped ones (inside, touching "
        "the first/last nucleotide of the fragment, crossing either boundary by 1-2 nt, covering the whole fragment, two-part joins "
        "inside, nested, abutting); every record rotated independently (60% hostile: origin inside the structure / at fragment ends), "
        "wrapped features stored either as origin-spanning joins or in past-the-end form; plus registry assemblies with the real "
        "feature tables (features given synthetic uids) rotated by the library's own <<. Non-trivial = at least one feature expected to "
        "survive and at least one expected to be dropped; distinct = distinct input sets.")
ASSUMPTIONS = ["features have exact positions; 'generated' product features are those of type source without a uid",
               "citation qualifiers are compared by C10, all other qualifiers here"]
FLOORS = {"c08_three_level_compositions": 20, "c08_unlabelled_features_matched": 50, "c08_reassembled_after_edit": 100, "c08_judged": 400, "c08_nontrivial": 150, "c08_features_expected_to_survive": 500, "c08_features_expected_dropped": 500, "c08_registry_judged": 8}
MUST_REACH = ["AbstractModule.target_sequence", "AbstractVector.target_sequence", "CircularRecord.__rshift__|CircularRecord.__lshift__"]
NEEDS_REGISTRIES = True
BUDGET_S = {"quick": 900, "thorough": 7200}


def setup(tier):
    regs.items()


def cases(tier, seed):
    per = 30 if tier == "quick" else 5000
    out = _embedded.assembly_cases(seed, per * len(gen.enzyme_names()), features=True, max_chain=4)
    out += _embedded.registry_assembly_cases(seed, per_vector=1 if tier == "quick" else 30)
    out += [{"kind": "three-level", "i": i, "seed": seed} for i in range(60 if tier == "quick" else 6000)]
    return out


def materialise(case):
    if case["kind"] == "assembly":
        m = _embedded.materialise_assembly(case)   # (a materialised case has kind "assembly-mat" and is returned as it is below)
        # own stream: one feature in six has fuzzy end points (<5, >8, (5.8), 5^8, one-of(5,8)); they denote the same
        # nucleotides as exact positions and are inherited like any other feature
        rf = gen.rng_for(case["seed"], PROP, "fuzzy", case["enzyme"], case["i"])
        for s in [m["vector"]] + m["modules"]:
            for f in s["features"]:
                if rf.random() < 0.17:
                    f["fuzzy"] = gen.fuzzy_kinds(rf, len(f["parts"]))
        # own stream: qualifier values as code-built records have them (a bare string instead of a one-element list), and
        # tandem annotations: two features of the same type, qualifiers and strand that abut inside a retained fragment and
        # follow one another in the table (repeat units, twin sites); they carry no uid and are matched by what they denote
        rq = gen.rng_for(case["seed"], PROP, "qualifier-shapes", case["enzyme"], case["i"])
        for s in [m["vector"]] + m["modules"]:
            for f in s["features"]:
                if rq.random() < 0.2:
                    f["quals"]["label"] = rq.choice(["ori", "a bare string", ""])
            b = s["built"]
            if b["frag_len"] >= 2 and rq.random() < 0.3:
                n = len(s["seq"])
                p0 = (b["frag_start_unrotated"] - b["rot_left"]) % n
                a = rq.randint(0, b["frag_len"] - 2)
                mid = rq.randint(a + 1, b["frag_len"] - 1)
                e = rq.randint(mid + 1, b["frag_len"])
                st = rq.choice([1, -1, None])
                quals = rq.choice([{}, {"note": ["repeat unit"]}, {"label": "unit"}])
                twins = [{"type": "misc_feature", "parts": [[p0 + x, p0 + y, st]], "quals": dict(quals)} for x, y in ((a, mid), (mid, e))]
                at = rq.randint(0, len(s["features"]))
                s["features"][at:at] = twins
        return m
    return case


_mon = None


def worker_init(ctx, tier):
    global _mon
    _mon = asmmon.AssembleMonitor(ctx, [asmmon.make_c08_judge()])
    _mon.install()


def give_uids(vrec, mods):
    k = 0
    for r in [vrec] + [m for _, m in mods]:
        for f in r.features:
            if "uid" not in f.qualifiers:
                f.qualifiers["uid"] = ["%s.%d" % (r.id, k)]
                k += 1


def three_level(mat, ctx):
    """P0 = level-0 assembly over enzyme A into a vector embedding B sites; P1 = P0 re-used over B into a vector embedding A sites;
    P2 = P1 re-used over A.  Every product keeps the default id and is re-used in memory (rotated by the library), so the
    provenance features of earlier levels are ordinary - unlabelled - input annotation for the next level."""
    import warnings
    from Bio.Seq import Seq
    from Bio.SeqFeature import SeqFeature, FeatureLocation
    from moclo.record import CircularRecord
    from .. import refmodel
    from ..util import rc

    rng = gen.rng_for(mat["seed"], PROP, "three", mat["i"])
    A, B = rng.choice([("BsaI", "BbsI"), ("BbsI", "BsaI"), ("BsaI", "BsmBI"), ("BsmBI", "BsaI")])
    g = {A: refmodel.geometry(gen.enzyme(A)), B: refmodel.geometry(gen.enzyme(B))}
    forbid = (g[A][0], rc(g[A][0]), g[B][0], rc(g[B][0]))

    def embedding_vector(X, Y, ox, oy):
        """vector over X (overhangs ox = (start, end)) whose retained backbone makes the product a Y-module oy[0] -> oy[1]"""
        gx, gy = g[X], g[Y]
        for _ in range(200):
            try:
                v = gen.build_vector(rng, gx, o_start=ox[0], o_end=ox[1], plen=rng.randint(0, 10), blen=0)
            except RuntimeError:
                return None
            backbone = oy[1] + gen.rand_dna(rng, gy[1]) + rc(gy[0]) + gen.rand_dna(rng, rng.randint(4, 16)) + gy[0] + gen.rand_dna(rng, gy[1]) + oy[0]
            s = v["seq"] + backbone
            if refmodel.count_sites(s, gx[0]) == 2 and refmodel.count_sites(s, gy[0]) == 2:
                return s
        return None

    try:
        oA = gen.gen_overhangs(rng, g[A][2], 2, forbid=forbid)
        oB = gen.gen_overhangs(rng, g[B][2], 2, forbid=forbid)
        oA2 = gen.gen_overhangs(rng, g[A][2], 2, forbid=forbid)
        ins = gen.build_module(rng, g[A], oA[1], oA[0], rng.randint(6, 25), rng.randint(0, 10), extra_forbid=(g[B][0],))
        v0 = embedding_vector(A, B, oA, oB)
        v1 = embedding_vector(B, A, (oB[1], oB[0]), oA2)
        v2 = gen.build_vector(rng, g[A], o_start=oA2[1], o_end=oA2[0], plen=rng.randint(0, 10), blen=rng.randint(4, 20), extra_forbid=(g[B][0],))
    except RuntimeError:
        ctx.count("three_level_unbuildable")
        return
    if v0 is None or v1 is None:
        ctx.count("three_level_unbuildable")
        return
    VA, MA = gen.generic_classes(A)
    VB, MB = gen.generic_classes(B)
    irec = CircularRecord(Seq(ins["seq"]), id="insert", name="insert")
    irec.features.append(SeqFeature(FeatureLocation(ins["frag_start"] + 1, ins["frag_start"] + ins["frag_len"] - 1, 1), type="CDS", qualifiers={"uid": ["insert.cds"]}))
    before = ctx.counters["c08_judged"]
    with warnings.catch_warnings():
        warnings.simplefilter("ignore")
        try:
            p0 = VA(CircularRecord(Seq(v0), id="v0", name="v0")).assemble(MA(irec >> rng.randrange(len(irec))))
            if refmodel.count_sites(str(p0.seq), g[B][0]) != 2 or refmodel.count_sites(str(p0.seq), g[A][0]) != 0:
                ctx.count("three_level_junction_site")
                return
            p1 = VB(CircularRecord(Seq(v1), id="v1", name="v1")).assemble(MB(p0 >> rng.randrange(len(p0))))
            if refmodel.count_sites(str(p1.seq), g[A][0]) != 2 or refmodel.count_sites(str(p1.seq), g[B][0]) != 0:
                ctx.count("three_level_junction_site")
                return
            VA(CircularRecord(Seq(v2["seq"]), id="v2", name="v2")).assemble(MA(p1 >> rng.randrange(len(p1))))
        except Exception as e:
            ctx.violation("three-level-assembly-raises:%s" % type(e).__name__, "re-using products as modules over three levels raised %s: %s" % (type(e).__name__, str(e)[:160]),
                          A=A, B=B, v0=v0, v1=v1, v2=v2["seq"], insert=ins["seq"])
            return
    if ctx.counters["c08_judged"] >= before + 3:
        ctx.count("c08_three_level_compositions")
        ctx.nontrivial(["three", A, B, v0, v1, ins["seq"]])
        ctx.sample({"kind": "three-level", "enzymes": [A, B, A], "ids": "default ('assembly') at every level"}, cap=1)


def execute(mat, ctx):
    if mat["kind"] == "three-level":
        ctx.count("evaluations")
        three_level(mat, ctx)
        return
    ctx.count("evaluations")
    before = (ctx.counters["c08_judged"], ctx.counters["c08_nontrivial"])
    if mat["kind"] == "assembly-mat":
        res = _embedded.run_assembly(mat, ctx)
        if res["outcome"] == "product" and mat["id"].endswith(("1", "4", "7")):
            # same entity objects, edited annotation, assembled again: the product must inherit the table the inputs carry *now*
            import warnings
            from Bio.SeqFeature import SeqFeature, FeatureLocation
            for e, rec in zip([res["vector"]] + res["modules"], [res["vrec"]] + res["mrecs"]):
                # (rec is the record object the caller handed to the entity)
                spec = mat["vector"] if e is res["vector"] else mat["modules"][res["modules"].index(e)]
                geomk = 1
                f0 = (spec["built"]["frag_start_unrotated"] - spec["built"]["rot_left"]) % len(rec)
                a = (f0 + 1) % len(rec)
                late = SeqFeature(FeatureLocation(a, a + 1, 1), type="misc_feature", qualifiers={"uid": [rec.id + ".late"], "note": ["added later"]})
                if len(rec) % 2:
                    rec.features.append(late)
                else:
                    rec.features = rec.features + [late]        # the table is re-bound, not edited in place
                for f in rec.features[:2]:
                    f.qualifiers["note"] = ["corrected"]
                if len(rec.features) > 3:
                    del rec.features[2]
            prod2 = None
            with warnings.catch_warnings():
                warnings.simplefilter("ignore")
                try:
                    prod2 = res["vector"].assemble(*res["modules"], id=mat["id"], name=mat["name"])
                except Exception:
                    pass
            ctx.count("c08_reassembled_after_edit")
            if prod2 is not None:
                # the features added to the records the caller holds (each one nucleotide long, just inside the retained
                # fragment) must all have an image in the new product
                have = {(f.qualifiers.get("uid") or [None])[0] for f in prod2.features}
                missing = [r.id + ".late" for r in [res["vrec"]] + res["mrecs"] if r.id + ".late" not in have]
                if missing:
                    ctx.violation("feature-added-to-the-callers-record-not-inherited", "after the caller's records were given a further feature, the same entities' product lacks %s" % missing[:3])
        if res["outcome"] == "product" and mat["id"].endswith(("2", "5", "8")):
            # same entity objects, but each now wraps a re-loaded, re-annotated record of the same plasmid (another id, features
            # re-labelled, one dropped): the product must be built from the records the entities wrap *now*
            import copy, warnings
            for e in [res["vector"]] + res["modules"]:
                spec = copy.deepcopy(mat["vector"] if e is res["vector"] else mat["modules"][res["modules"].index(e)])
                spec["id"] = spec["name"] = spec["id"] + "c"
                if len(spec["features"]) > 1:
                    del spec["features"][0]
                for f in spec["features"]:
                    if "uid" in f["quals"]:
                        f["quals"]["uid"] = [f["quals"]["uid"][0] + ".cur"]
                e.record = gen.make_record(spec)
            with warnings.catch_warnings():
                warnings.simplefilter("ignore")
                try:
                    res["vector"].assemble(*res["modules"], id=mat["id"], name=mat["name"])
                except Exception:
                    pass
            ctx.count("c08_reassembled_after_record_replaced")
        sig = [mat["enzyme"], mat["vector"]["seq"], [m["seq"] for m in mat["modules"]], [f["parts"] for f in mat["vector"]["features"]]]
        sample = {"kind": "generated", "enzyme": mat["enzyme"],
                  "features": [[(f["quals"].get("uid") or ["-"])[0], (f["quals"].get("note") or ["-"])[0], f["parts"]] for s in [mat["vector"]] + mat["modules"] for f in s["features"]][:8]}
    else:
        import warnings
        vcls, vrec, mods = _embedded.registry_records(mat, with_features=False, rotate=False)
        # real feature tables: deep copies of the registry records, rotated by the library itself
        from moclo.record import CircularRecord
        index = {(r, k): (c, rec) for r, k, c, rec in regs.items()}
        full = []
        for i, key in enumerate(mat["modules"]):
            c, rec = index[(mat["reg"], key)]
            full.append((c, CircularRecord(rec)))
        if mat.get("generated"):
            fv = (vcls, vrec)
        else:
            c, rec = index[(mat["reg"], mat["vector"])]
            fv = (c, CircularRecord(rec))
        give_uids(fv[1], full)
        rot = lambda r, frac: (r << (int(frac * len(r)) % len(r)))
        vec = fv[0](rot(fv[1], mat["rots"][0]))
        ents = [c(rot(r, mat["rots"][1 + i])) for i, (c, r) in enumerate(full)]
        with warnings.catch_warnings():
            warnings.simplefilter("ignore")
            try:
                vec.assemble(*ents, id="regprod", name="regprod")
            except Exception as e:
                ctx.count("registry_assembly_raised")
        if ctx.counters["c08_judged"] > before[0]:
            ctx.count("c08_registry_judged")
        sig = ["reg", mat["reg"], mat["vector"], mat["modules"], mat["rots"]]
        sample = {"kind": "registry", "registry": mat["reg"], "vector": mat["vector"], "modules": mat["modules"]}
    if ctx.counters["c08_nontrivial"] > before[1]:
        ctx.nontrivial(sig)
        ctx.sample(sample, cap=2)
    elif mat["kind"] == "assembly-mat" and ctx.counters["c08_judged"] == before[0]:
        e = res.get("error")
        ctx.violation("annotated-assembly-not-judged", "generated annotated assembly did not return the model's product (%s)" % (
            "raised %s: %s" % (type(e).__name__, str(e)[:160]) if e is not None else "sequence differs"))

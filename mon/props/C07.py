"""C07 - Assembly is pure: inputs are left untouched, even when it fails."""
import copy
import warnings

from .. import gen, refmodel, asmmon
from ..util import rc
from . import _embedded

PROP = "C07"
LEVEL = "fault_enumeration"
DESIGN_REF = "DESIGN.md section 4, C07"
TECHNIQUE = "history monitor with fault enumeration: deep before/after snapshots around every assemble() call, an exception injected at every crossing of the manager->entity boundary, natural failures at every chain position, repeated and retried calls on shared objects"
LEVEL_TEXT = ("For each generated annotated assembly (with and without reference lists / citation qualifiers) the crash points are "
              "enumerated completely: a clean monitored run records every call the assembly manager makes into the entities "
              "(overhang_start / overhang_end / target_sequence of each element); each is then replayed with a private InjectedFault "
              "and with InvalidSequence raised there, plus the natural failures (invalid vector, duplicate found at each map-building "
              "position, chain stalling after j consumed modules for every j, module j replaced by an invalid record). After every "
              "call - returning, warning or raising - deep snapshots of all inputs must equal those taken before, the 2nd and 3rd call "
              "on the same objects and the retry after a failure must equal a first call on fresh deep copies. Exhaustive over the "
              "crash points of the generated cases, not over cases.")
LEVEL_NOTE = "faults are injected only inside entity methods (where the statement allows an arbitrary exception), never inside the library's own restore code; snapshot = sequence, ids, dbxrefs, letter annotations, annotations (missing references == []), features with qualifiers and Reference objects flattened field-wise"
RULE = ("cases: generated assemblies of 1..3 modules over BsaI/BbsI/BsmBI and 3 other geometries, feature tables with boundary-snapped "
        "features, reference lists of 0..5 entries (shared through a common pool), features citing 0..3 references inside and outside the "
        "retained fragments, every record independently rotated; per case: clean call x3 on shared objects, every boundary crossing x "
        "{InjectedFault, InvalidSequence}, each followed by a retry, and the natural failure scenarios. Non-trivial = a faulted or "
        "failing call on inputs at least one of which carries a citation qualifier or a feature; distinct = distinct (case, crash point, exception kind)."
        " Second session: the leftover module of the warning path carries a reference list and citations; one paper listed twice with two spans in an input, a feature citing the second entry.")
ASSUMPTIONS = [
    "references inside one record are pairwise distinct; citation qualifiers are well-formed [n] with n in range, except in the 'bad-citation' scenarios where one malformed / dangling qualifier serves as the failure trigger",
    "an absent reference list is equivalent to an empty one (as the statement says)",
]
FLOORS = {"c07_purity_checks": 2000, "c07_faults_injected": 1000, "c07_natural_failures": 150, "c07_retries_compared": 1000,
          "c07_repeat_calls_compared": 100, "c07_cases_with_citations": 40, "c07_bad_citation_failures": 100}
MUST_REACH = ["AbstractVector.assemble", "AssemblyManager._deref_citations", "AssemblyManager._ref_citations", "AssemblyManager._generate_assembly"]
BUDGET_S = {"quick": 1200, "thorough": 7200}
EXHAUSTIVE = {"quick": False, "thorough": False}
ENZYMES = ["BsaI", "BbsI", "BsmBI", "FokI", "BspQI", "BtgZI"]


class InjectedFault(Exception):
    pass


def cases(tier, seed):
    n = 160 if tier == "quick" else 10000
    names = [e for e in ENZYMES if e in gen.enzyme_names() or e in ("BsaI", "BbsI", "BsmBI")]
    out = []
    for i in range(n):
        out.append({"kind": "assembly", "i": i, "seed": seed, "enzyme": names[i % len(names)],
                    "opts": {"features": True, "refs": i % 4 != 3, "max_chain": 3, "tmax": 20, "bmax": 20, "pmax": 15}})
    return out


def materialise(case):
    if case["kind"] == "assembly":
        m = _embedded.materialise_assembly(case)
        # own stream: some inputs carry a feature located on another record (segmented GenBank entries); the origin is then
        # often put exactly on the first letter of the structure's first group, where the library's rotation is by zero
        rr = gen.rng_for(case["seed"], PROP, "remote", case["enzyme"], case["i"])
        for s in [m["vector"]] + m["modules"]:
            if rr.random() < 0.25:
                s["features"] = s["features"] + [{"type": "misc_feature", "parts": [[3, 9, 1, "J00194.1", None]], "quals": {"uid": [s["id"] + ".remote"]}}]
        return m
    return case


_mon = None


def worker_init(ctx, tier):
    global _mon
    _mon = asmmon.AssembleMonitor(ctx, [asmmon.make_c07_judge()], snapshot=asmmon.deep_snapshot)
    _mon.install()


def _call(vec, mods, tag):
    _mon.tag = tag
    with warnings.catch_warnings():
        warnings.simplefilter("ignore")
        try:
            vec.assemble(*mods, id="p", name="p")
        except Exception:
            pass
    return asmmon.outcome_signature(_mon.last)


def _arm(ent, meth, log, idx, hit=None, exc=None):
    """instance-level wrapper: log the crossing, raise `exc` at the hit-th call"""
    orig = getattr(ent, meth)
    state = {"n": 0}

    def w(*a, **kw):
        state["n"] += 1
        log.append((idx, meth, state["n"]))
        if hit is not None and state["n"] == hit:
            raise exc
        return orig(*a, **kw)

    setattr(ent, meth, w)


METHS = ("overhang_start", "overhang_end", "target_sequence")


def execute(mat, ctx):
    from moclo import errors

    V, M = gen.generic_classes(mat["enzyme"])
    specs = [mat["vector"]] + list(mat["modules"])
    shared = [gen.make_record(s) for s in specs]          # the shared record objects of this history
    # annotation values assigned after construction, in spellings the library accepts (it lower-cases before comparing)
    rt = gen.rng_for(PROP, "late-annotations", mat["vector"]["seq"][:24], len(specs))
    late = [rt.choice([None, None, "Circular", "CIRCULAR", "circular"]) for _ in specs]

    same_id = len(specs) >= 3 and (len(specs[0]["seq"]) + len(specs)) % 4 == 0

    def respell(recs):
        for r, t in zip(recs, late):
            if t is not None:
                r.annotations["topology"] = t
        if same_id:
            # two different module plasmids that carry the same identifier
            recs[1].id = recs[1].name = recs[2].id = recs[2].name = "<unknown id>"
        return recs

    respell(shared)
    if any(t not in (None, "circular") for t in late):
        ctx.count("c07_cases_with_capitalised_topology")
    has_cit = any("citation" in f["quals"] for s in specs for f in s["features"])
    has_feat = any(s["features"] for s in specs)
    if has_cit:
        ctx.count("c07_cases_with_citations")
    ents = lambda recs: (V(recs[0]), [M(r) for r in recs[1:]])

    # reference outcome: a first call on fresh deep copies
    fresh = respell([gen.make_record(s) for s in specs])
    v0, m0 = ents(fresh)
    ref_sig = _call(v0, m0, {"scenario": "reference-on-fresh-copies"})
    ctx.count("evaluations")

    # clean run on the shared objects with the crossing recorder armed
    log = []
    v, ms = ents(shared)
    for idx, e in enumerate([v] + ms):
        for meth in METHS:
            _arm(e, meth, log, idx)
    sig1 = _call(v, ms, {"scenario": "clean-call-1"})
    crossings = list(log)
    ctx.hist("crossings_per_case", len(crossings))
    if sig1 != ref_sig:
        ctx.violation("first-call-on-shared-objects-differs-from-fresh-copies", "clean call: %r vs %r" % (str(sig1)[:200], str(ref_sig)[:200]))
    for n in (2, 3):
        v, ms = ents(shared)
        sig = _call(v, ms, {"scenario": "clean-call-%d" % n})
        ctx.count("c07_repeat_calls_compared")
        ctx.count("evaluations")
        if sig != ref_sig:
            ctx.violation("repeated-call-differs:call-%d" % n, "call %d on the same record objects gives %s, a first call on fresh copies %s" % (
                n, str(sig)[:300], str(ref_sig)[:300]), scenario="repeat")

    def retry(label):
        v, ms = ents(shared)
        sig = _call(v, ms, {"scenario": "retry-after:" + label})
        ctx.count("c07_retries_compared")
        if sig != ref_sig:
            kind = "raises" if sig[0] == "raised" else "differs"
            ctx.violation("retry-after-failure-%s" % kind, "after %s, retrying the assembly on the same record objects gives %s instead of %s" % (
                label, str(sig)[:300], str(ref_sig)[:300]), scenario=label)

    # fault enumeration: every crossing x two exception kinds
    for (idx, meth, hit) in crossings:
        for kindname in ("InjectedFault", "InvalidSequence"):
            v, ms = ents(shared)
            al = [v] + ms
            exc = InjectedFault("injected at %s#%d of element %d" % (meth, hit, idx)) if kindname == "InjectedFault" else \
                errors.InvalidSequence(al[idx].record, details="injected")
            _arm(al[idx], meth, [], idx, hit, exc)
            label = "%s at %s call %d of %s" % (kindname, meth, hit, "vector" if idx == 0 else "module %d" % (idx - 1))
            ctx.count("c07_faults_injected")
            ctx.count("evaluations")
            sig = _call(v, ms, {"scenario": "fault", "where": label})
            if sig[0] != "raised" or sig[1] != kindname:
                ctx.hist("fault_outcome", "not-propagated:" + str(sig[:2]))
            else:
                ctx.hist("fault_outcome", "propagated")
            if has_cit or has_feat:
                ctx.nontrivial([mat["id"], mat["enzyme"], idx, meth, hit, kindname])
            retry(label)

    # natural failures
    nm = len(mat["modules"])
    geom = refmodel.geometry(gen.enzyme(mat["enzyme"]))
    chain = mat["chain"]   # chain[j] = argument index of the j-th module of the chain

    def natural(label, recs):
        v, ms = ents(recs)
        ctx.count("c07_natural_failures")
        ctx.count("evaluations")
        sig = _call(v, ms, {"scenario": label})
        ctx.hist("natural_outcome", "%s:%s" % (label.split(" ")[0], sig[1] if sig[0] == "raised" else "product"))
        if has_cit or has_feat:
            ctx.nontrivial([mat["id"], mat["enzyme"], label])
        retry(label)

    # chain stalling after j consumed modules: drop the module at chain position j
    for j in range(nm):
        keep = [shared[0]] + [shared[1 + a] for a in range(nm) if a != chain[j]]
        if len(keep) > 1:
            natural("missing-after-%d-consumed" % j, keep)
    # duplicate found at map-building position i: pass module i twice (a fresh copy of the same plasmid)
    for i in range(nm):
        dup = gen.make_record(dict(mat["modules"][i], id="dup%d" % i))
        natural("duplicate-at-position-%d" % (i + 1), shared[:1 + i + 1] + [dup] + shared[1 + i + 1:])
    # module j replaced by an invalid record (its recognition sites destroyed)
    for j in range(nm):
        bad_spec = dict(mat["modules"][j])
        bad_spec["seq"] = bad_spec["seq"].upper().replace(geom[0], "A" * len(geom[0])).replace(rc(geom[0]), "T" * len(geom[0]))
        bad = gen.make_record(bad_spec)
        recs = list(shared)
        recs[1 + j] = bad
        natural("invalid-module-%d" % j, recs)
    # a malformed or dangling citation qualifier in element j (only as a failure trigger: the call raises and
    # must leave every input - in particular the elements processed before j - untouched)
    for j in range(nm + 1):
        if not has_cit:
            break
        for badcit in ("7", "[99]", "[x]", "BARE:[1]", "AFTER-VALID:[99]"):
            spec = copy.deepcopy(specs[j])
            cits = [badcit]
            if badcit.startswith("AFTER-VALID:"):
                # the dangling citation follows valid ones of the same feature (already looked up when the call fails)
                if not spec.get("refs"):
                    continue
                cits = ["[1]", "[%d]" % len(spec["refs"]), badcit[12:]]
            spec["features"] = list(spec["features"]) + [{"type": "misc_feature", "parts": [[0, 1, 1]], "quals": {"uid": ["bad.%d" % j], "citation": cits}}]
            recs = list(shared)
            recs[j] = gen.make_record(spec)
            if badcit.startswith("BARE:"):
                # a hand-made feature whose citation qualifier is a bare string instead of a list
                recs[j].features[-1].qualifiers["citation"] = badcit[5:]
            v, ms = ents(recs)
            ctx.count("c07_natural_failures")
            ctx.count("c07_bad_citation_failures")
            ctx.count("evaluations")
            sig = _call(v, ms, {"scenario": "bad-citation %r in element %d" % (badcit, j)})
            ctx.hist("natural_outcome", "bad-citation:%s" % (sig[1] if sig[0] == "raised" else "product"))
            ctx.nontrivial([mat["id"], mat["enzyme"], "bad-citation", j, badcit])
            retry("bad citation %r in element %d" % (badcit, j))
    # a feature pasted from another file: it cites "[1]" on a record that has no reference list at all (no "references"
    # annotation, which is equivalent to an empty one).  Whatever the call does, doing it again on the same objects must do the same.
    for j in (0, nm):
        mspecs = [copy.deepcopy(x) for x in specs]
        mspecs[j].pop("refs", None)
        mspecs[j]["features"] = [dict(f, quals={k: v for k, v in f["quals"].items() if k != "citation"}) for f in mspecs[j]["features"]]
        mspecs[j]["features"].append({"type": "misc_feature", "parts": [[0, 1, 1]], "quals": {"uid": ["pasted.%d" % j], "citation": ["[1]"]}})
        same = [gen.make_record(x) for x in mspecs]
        sigs = []
        for n in (1, 2, 3):
            v, ms = ents(same)
            sigs.append(_call(v, ms, {"scenario": "dangling-citation-without-reference-list:call-%d" % n}))
        v, ms = ents([gen.make_record(x) for x in mspecs])
        fresh_sig = _call(v, ms, {"scenario": "dangling-citation-without-reference-list:fresh-copies"})
        ctx.count("c07_dangling_citation_histories")
        ctx.count("evaluations")
        for n, sg in enumerate(sigs, start=1):
            if sg != fresh_sig:
                ctx.violation("repeated-call-differs:dangling-citation:call-%d" % n, "a record citing [1] without any reference list: call %d on the same objects gives %s, a first call on fresh copies %s" % (
                    n, str(sg)[:200], str(fresh_sig)[:200]), scenario="dangling-citation-without-reference-list")
                break
    # the same paper listed twice in one input, once for the whole plasmid and once for a stretch of it (two entries that differ
    # in their span only, as GenBank files of curated plasmids have them), a feature citing the *second* entry
    for j in (0, nm):
        if not specs[j].get("refs"):
            continue
        spec = copy.deepcopy(specs[j])
        n = len(spec["seq"])
        twin = dict(spec["refs"][0], span=[[0, max(1, n // 2)]])
        spec["refs"] = [dict(spec["refs"][0], span=True)] + spec["refs"][1:] + [twin]
        spec["features"] = list(spec["features"]) + [{"type": "misc_feature", "parts": [[0, 2, 1]], "quals": {"uid": ["twin.%d" % j], "citation": ["[%d]" % len(spec["refs"])]}}]
        recs = list(shared)
        recs[j] = gen.make_record(spec)
        sigs = []
        for n_ in (1, 2):
            v, ms = ents(recs)
            sigs.append(_call(v, ms, {"scenario": "paper-listed-twice-with-two-spans in element %d: call %d" % (j, n_)}))
        ctx.count("c07_twice_listed_paper_histories")
        ctx.count("evaluations")
        if sigs[0] != sigs[1]:
            ctx.violation("repeated-call-differs:paper-listed-twice", "an input lists one paper twice (two spans): the second call on the same objects gives %s, the first %s" % (
                str(sigs[1])[:200], str(sigs[0])[:200]), scenario="paper-listed-twice")
    # invalid vector: a module used as the vector of itself has equal overhangs only by accident; build one explicitly
    ov = mat["overhangs"]
    rng = gen.rng_for("c07-invalid-vector", mat["id"])
    try:
        bv = gen.build_vector(rng, geom, o_start=ov[0], o_end=ov[0], plen=5, blen=8)
        vbad = gen.make_record({"id": "vbad", "seq": bv["seq"], "features": mat["vector"]["features"][:0]})
        natural("invalid-vector-equal-overhangs", [vbad] + shared[1:])
    except RuntimeError:
        pass
    # unused module: add a module that chains nowhere (warning path)
    try:
        extra = gen.build_module(rng, geom, gen.gen_overhangs(rng, geom[2], 1, forbid=(geom[0], rc(geom[0])))[0], ov[0], 5, 5)
        if extra["seq"][len(geom[0]) + geom[1]:][:geom[2]] not in ov and rc(extra["seq"][len(geom[0]) + geom[1]:][:geom[2]]) not in ov:
            # the leftover module is a documented plasmid too: a reference list of its own and a feature citing it
            ex = gen.make_record({"id": "extra", "seq": extra["seq"],
                                  "features": [{"type": "misc_feature", "parts": [[0, 5, 1]], "quals": {"uid": ["extra.0"]}},
                                               {"type": "CDS", "parts": [[2, 9, 1]], "quals": {"uid": ["extra.1"], "citation": ["[2]", "[1]"]}}],
                                  "refs": [{"title": "A module nobody needed", "authors": "Left O.", "journal": "J. Leftovers 1:1", "span": True},
                                           {"title": "Direct Submission", "authors": "Left O.", "journal": "Submitted (01-JAN-2020)", "span": [[0, 9]]}]})
            ctx.count("c07_unused_modules_with_citations")
            natural("unused-module-warning", shared + [ex])
            # the same call with warnings escalated to errors (the documented way of refusing leftovers): the warning is
            # raised inside assemble(), wherever the library issues it
            v2, ms2 = ents(shared + [ex])
            _mon.tag = {"scenario": "unused-module-warning-escalated-to-error"}
            _mon.keep_filters = True
            ctx.count("c07_escalated_warning_calls")
            try:
                with warnings.catch_warnings():
                    warnings.simplefilter("error")
                    v2.assemble(*ms2, id="p", name="p")
            except Exception:
                pass
            finally:
                _mon.keep_filters = False
            retry("unused-module-warning-escalated-to-error")
    except RuntimeError:
        pass
    ctx.sample({"enzyme": mat["enzyme"], "modules": nm, "crossings": ["%s:%s#%d" % c for c in crossings][:8],
                "citations": [f["quals"].get("citation") for s in specs for f in s["features"] if "citation" in f["quals"]][:4],
                "references_per_record": [len(s.get("refs", [])) for s in specs]}, cap=3)

"""C04 - Reported overhangs and fragments are true restriction fragments of the cutter."""
from .. import gen, regs, refmodel
from ..monitors import FragmentMonitor
from ..util import rc, rot_left
from . import _embedded

PROP = "C04"
LEVEL = "exploration"
DESIGN_REF = "DESIGN.md section 4, C04"
TECHNIQUE = "runtime monitor (post-conditions on overhang_start/overhang_end/target_sequence/placeholder_sequence of every entity) against cut positions found by plain string search"
LEVEL_TEXT = ("Whenever any module/vector/part entity reports an overhang, target or placeholder - in the driver's typing workload over "
              "all 85 kit classes and generic classes for every geometry, and inside the assemblies the workload runs - the reported "
              "tuple is judged against refmodel.cuts(): overhangs are the ends left at two cut positions, the target is the stretch "
              "between them, no further cut inside a flanked target, placeholder + target partition the plasmid. Only accepted records "
              "are judged; rejected ones are counted.")
LEVEL_NOTE = "trusts Biopython's enzyme table attributes and mon/refmodel.cuts (25 lines of overlap-aware circular string search)"
RULE = ("for every concrete kit class (85) and a generic module+vector class per supported geometry: instances of the class's own "
        "structure (IUPAC letters expanded at random, runs of 0..40), the same with one extra cutter site inserted anywhere in either "
        "orientation, instances of another class's structure, single-letter mutants; each padded with random backbone and rotated "
        "at random; every registry plasmid under its registry class (original and 2 rotations); generated and registry assemblies. "
        "Non-trivial = the class accepted the record and the tuple was judged; distinct = distinct (class, sequence)."
        " Second session: one accepted probe in five is repeated as an editable record (MutableSeq): looked at, edited in place (a site destroyed or one letter changed), looked at again through a new entity.")
ASSUMPTIONS = [
    "records are circular and over ACGT plus the unknown base N (records with other ambiguity letters are counted as skipped)",
    "which of several valid cut pairs a class picks is not constrained",
]
FLOORS = {"c04_nested_pairs": 40, "c04_entities_judged": 1500, "c04_placeholders_judged": 150, "c04_flanked_targets": 500, "classes_judged": 60, "c04_records_edited_in_place": 300}
MUST_REACH = ["AbstractModule.target_sequence", "AbstractVector.target_sequence", "AbstractVector.placeholder_sequence"]
NEEDS_REGISTRIES = True
BUDGET_S = {"quick": 900, "thorough": 7200}
MODES = ["own", "own", "extra-site", "other-class", "mutant", "short-tandem", "own-other-strand"]


def setup(tier):
    regs.items()


def cases(tier, seed):
    out = []
    classes = [gen.class_name(c) for c in gen.concrete_kit_classes()]
    per = 40 if tier == "quick" else 5000
    for c in classes:
        out.append({"kind": "kit", "cls": c, "seed": seed, "count": per})
    for e in gen.enzyme_names():
        out.append({"kind": "generic", "enzyme": e, "seed": seed, "count": per})
    for c in classes:
        out.append({"kind": "indels", "cls": c, "seed": seed, "instances": 1 if tier == "quick" else 40})
    for j in range(0, 80 if tier == "quick" else 2400, 10):
        out.append({"kind": "nested-pairs", "from": j, "count": 10, "seed": seed})
    its = regs.items()
    for j in range(0, len(its), 20):
        out.append({"kind": "registry", "from": j, "to": min(len(its), j + 20), "seed": seed})
    out += _embedded.assembly_cases(seed, 48 if tier == "quick" else 9600, features=False)
    out += _embedded.registry_assembly_cases(seed, per_vector=1 if tier == "quick" else 6)
    if tier == "thorough":
        out.append({"kind": "repo-tests"})
    return out


def materialise(case):
    if case["kind"] == "assembly":
        return _embedded.materialise_assembly(case)
    return case


_mon = None


def worker_init(ctx, tier):
    global _mon
    _mon = FragmentMonitor(ctx)
    _mon.install()


def _probe(ctx, cls, text, mode):
    from Bio.Seq import Seq
    from moclo.record import CircularRecord
    from moclo import errors

    ctx.count("evaluations")
    # the topology annotation in every spelling the library accepts (it lower-cases before comparing), or none
    topo = [None, "circular", "Circular", None, "CIRCULAR"][(len(text) + ord(text[0])) % 5]
    ent = cls(CircularRecord(Seq(text), "probe", annotations={"topology": topo} if topo else None))
    ctx.hist("probe_topology_annotation", str(topo))
    before = ctx.counters["c04_entities_judged"]
    try:
        first = ent.is_valid()
        ok = ent.is_valid()          # a verdict cached on the entity must not turn a rejection into an acceptance
        if ok and not first:
            ctx.count("accepted_only_on_second_call")
    except Exception as e:
        ctx.count("is_valid_raised")
        return
    ctx.hist("probe_outcome", "%s:%s" % (mode, "accepted" if ok else "rejected"))
    if not ok:
        return
    ent.target_sequence()        # triggers the monitor's judgement of the whole tuple
    if hasattr(ent, "placeholder_sequence"):
        ent.placeholder_sequence()
    if ctx.counters["c04_entities_judged"] > before:
        ctx.nontrivial([cls.__name__, text])
    if (len(text) + ord(text[len(text) // 2])) % 5 == 0:
        # the plasmid as an editable record (MutableSeq), looked at, edited in place - a recognition site destroyed, or one letter
        # changed somewhere - and looked at again through a new entity on the same record object with nothing else in between:
        # what the class reports is judged against the text the record holds at that moment
        from Bio.Seq import MutableSeq
        from ..util import occurrences
        rec = CircularRecord(MutableSeq(text), "editable")
        site = cls.cutter.site
        try:
            e1 = cls(rec)
            if e1.is_valid():
                e1.overhang_start(), e1.overhang_end(), e1.target_sequence()
            hits = occurrences(text, site) + occurrences(text, rc(site))
            h = len(text) + ord(text[0])
            if hits and h % 3:
                i = (hits[h % len(hits)] + h % len(site)) % len(text)
            else:
                i = h % len(text)
            rec.seq[i] = "ACGT"[("ACGT".index(text[i].upper()) + 1 + h % 3) % 4] if text[i].upper() in "ACGT" else "A"
            ctx.count("c04_records_edited_in_place")
            e2 = cls(rec)
            if e2.is_valid():
                ctx.count("c04_edited_records_still_accepted")
                e2.overhang_start(), e2.overhang_end(), e2.target_sequence()
                if hasattr(e2, "placeholder_sequence"):
                    e2.placeholder_sequence()
        except errors.InvalidSequence:
            pass
    if (len(text) + ord(text[-1])) % 4 == 0:
        # the same plasmid handed over as a plain SeqRecord that declares itself circular (what Bio.SeqIO returns): whatever
        # the class reports for it is judged like any other report; refusing to cut a target out of a record that cannot be
        # rotated (TypeError) reports nothing
        from Bio.SeqRecord import SeqRecord
        ent2 = cls(SeqRecord(Seq(text), "probe", annotations={"topology": "circular"}))
        ctx.count("c04_plain_seqrecord_probes")
        try:
            if ent2.is_valid():
                ent2.overhang_start(), ent2.overhang_end()
                ent2.target_sequence()
                if hasattr(ent2, "placeholder_sequence"):
                    ent2.placeholder_sequence()
        except (TypeError, errors.InvalidSequence):
            pass


def _variants(rng, cls, other_classes, count, run_max):
    site = cls.cutter.site
    for j in range(count):
        mode = MODES[j % len(MODES)]
        src = cls if mode != "other-class" else rng.choice(other_classes)
        if mode == "short-tandem":
            # a minimal structure (runs of 0..3 letters) in which one of the cutter's sites is duplicated in tandem,
            # so that the second copy cuts within a few nucleotides of the first one's cut
            s = gen.instance(rng, cls.structure(), run_max=3)
            from ..util import occurrences
            hits = [(i, site) for i in occurrences(s, site, circular=False)] + [(i, rc(site)) for i in occurrences(s, rc(site), circular=False)]
            if hits:
                i, w = rng.choice(hits)
                at = i + len(w) if rng.random() < 0.5 else i
                s = s[:at] + w + s[at:]
            if rng.random() < 0.5:
                # minimal by construction: two copies of a flanking site in tandem and just enough letters for the other half
                # of the default structure, so that the reported target body is only 2..5 nt long
                st, nn, kk = refmodel.geometry(cls.cutter)
                e = max(0, 2 * nn + 2 * kk + 2 - len(st)) + rng.randint(0, 3)
                s = (st + st + gen.rand_dna(rng, e) + rc(st)) if rng.random() < 0.5 else (st + gen.rand_dna(rng, e) + rc(st) + rc(st))
            s += gen.rand_dna(rng, rng.randint(0, 25))
            yield mode, rot_left(s, rng.randrange(len(s)))
            continue
        s = gen.instance(rng, src.structure(), run_max=run_max) + gen.rand_dna(rng, rng.randint(0, 25))
        if mode == "own-other-strand":
            s = rc(s)          # the same plasmid deposited in the other orientation (a typed part then usually is not of its type)
        if mode == "extra-site":
            i = rng.randrange(len(s))
            s = s[:i] + rng.choice([site, rc(site)]) + s[i:]
        elif mode == "mutant":
            i = rng.randrange(len(s))
            s = s[:i] + rng.choice("ACGTN") + s[i + 1:]
            if rng.random() < 0.3:
                # an unknown base inside one of the recognition sites
                from ..util import occurrences
                hits = occurrences(s, site, circular=False) + occurrences(s, rc(site), circular=False)
                if hits:
                    j = rng.choice(hits) + rng.randrange(len(site))
                    s = s[:j] + "N" + s[j + 1:]
        yield mode, rot_left(s, rng.randrange(len(s)))


def execute(mat, ctx):
    kind = mat["kind"]
    if kind == "repo-tests":
        _embedded.run_repo_tests_under_monitors(ctx, ["fragment"], PROP)
        return
    if kind == "assembly-mat":
        _embedded.run_assembly(mat, ctx)
        return
    if kind == "registry-asm":
        _embedded.run_registry_assembly(mat, ctx)
        return
    if kind == "nested-pairs":
        # the hand-written vector structures embed the sites of another enzyme: the same stretch is matched by the vector
        # class (its own cutter) and by the kit's module classes of the embedded enzyme.  Both are asked, in either order, about
        # the same record carrying one extra site of either enzyme in the placeholder.
        from . import C11
        trip = C11.triples()
        for j in range(mat["from"], mat["from"] + mat["count"]):
            rng = gen.rng_for(mat["seed"], PROP, "nested", j)
            name, Vc, Mc, Nc = trip[j % len(trip)]
            if name == "ytk-entry":
                continue
            sv = C11.make_vector(rng, Vc, [Vc.cutter, Nc.cutter])
            if sv is None:
                continue
            extra = rng.choice([Vc.cutter, Nc.cutter])
            alt = C11.site_in_placeholder(rng, sv, Vc.cutter, extra) if extra is not Vc.cutter else None
            if alt is None:
                # an extra site of the vector's own cutter (or no placeholder room): insert it anywhere in the placeholder region
                from ..util import occurrences
                a = occurrences(sv, rc(Vc.cutter.site))
                b = occurrences(sv, Vc.cutter.site)
                if len(a) == 1 and len(b) == 1 and b[0] - (a[0] + len(Vc.cutter.site)) >= 2:
                    i = rng.randint(a[0] + len(Vc.cutter.site) + 1, b[0] - 1)
                    alt = sv[:i] + rng.choice([extra.site, rc(extra.site)]) + sv[i:]
                else:
                    alt = sv
            text = rot_left(alt, rng.randrange(len(alt)) if rng.random() < 0.5 else 0)
            order = [Vc, Nc] if rng.random() < 0.5 else [Nc, Vc]
            for cls in order:
                _probe(ctx, cls, text, "nested-pair")
            ctx.count("c04_nested_pairs")
        return
    if kind == "registry":
        for rname, key, cls, rec in regs.items()[mat["from"]:mat["to"]]:
            s = str(rec.seq)
            rng = gen.rng_for(mat["seed"], PROP, "reg", key)
            for r in (0, rng.randrange(len(s)), rng.randrange(len(s))):
                _probe(ctx, cls, rot_left(s, r), "registry")
        return
    if kind == "indels":
        # every single-nucleotide deletion and insertion of a compact instance: sites, spacers and fusion sites one step out
        # of register (two sites of a hand-written structure that each look right but no longer agree on the cut)
        cls = gen.class_by_name(mat["cls"])
        rng = gen.rng_for(mat["seed"], PROP, "indels", mat["cls"])
        for _ in range(mat["instances"]):
            s = gen.instance(rng, cls.structure(), run_min=1, run_max=5) + gen.rand_dna(rng, rng.randint(0, 4))
            for i in range(len(s)):
                _probe(ctx, cls, s[:i] + s[i + 1:], "deletion")
                _probe(ctx, cls, s[:i] + rng.choice("ACGT") + s[i:], "insertion")
            ctx.count("c04_indel_instances")
        ctx.sample({"kind": kind, "class": mat["cls"]}, cap=1)
        return
    classes = gen.concrete_kit_classes()
    if kind == "kit":
        cls = gen.class_by_name(mat["cls"])
        rng = gen.rng_for(mat["seed"], PROP, mat["cls"])
        others = [c for c in classes if c is not cls]
        for mode, text in _variants(rng, cls, others, mat["count"], 40):
            _probe(ctx, cls, text, mode)
        ctx.sample({"kind": "kit", "class": mat["cls"], "structure": cls.structure(), "modes": MODES}, cap=2)
    else:
        V, M = gen.generic_classes(mat["enzyme"])
        rng = gen.rng_for(mat["seed"], PROP, mat["enzyme"])
        for cls in (V, M):
            for mode, text in _variants(rng, cls, [V, M], mat["count"] // 2, 40):
                _probe(ctx, cls, text, mode)
        ctx.sample({"kind": "generic", "enzyme": mat["enzyme"], "structures": [V.structure(), M.structure()]}, cap=1)


def finalize(agg, tier):
    agg["counters"]["classes_judged"] = len(agg["hists"].get("c04_class", {}))
    return {"classes_with_accepted_records": len(agg["hists"].get("c04_class", {}))}

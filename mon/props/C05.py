"""C05 - A part type accepts exactly the records with its signature overhangs."""
from .. import gen, refmodel
from ..util import rc, rot_left, sigmatch, IUPAC, occurrences

PROP = "C05"
LEVEL = "exploration"
DESIGN_REF = "DESIGN.md section 4, C05"
TECHNIQUE = "runtime monitor: differential oracle (signature part class vs harness-made signature-free class + IUPAC containment) and a post-condition wrapper on AbstractPart.characterize"
LEVEL_TEXT = ("For every signature-derived part class of the kits and for generated user signatures over every supported geometry and "
              "both roles, the verdict of the part class on a record is compared with (generic class accepts AND overhangs are members "
              "of the signature), with IUPAC membership computed from a hand-typed table; every characterize() call is intercepted and "
              "its outcome checked against fresh instances of every candidate type.")
LEVEL_NOTE = "trusts the IUPAC table in mon/util.py and Python subclass enumeration; the generic class is judged by C01/C04, here it is the reference"
RULE = ("part classes: every kit class deriving its structure from its signature (YTKPart234r excluded, the delegating Level-M/P classes "
        "included) plus, per supported geometry, user part classes with random signatures over IUPAC letters (NNNN included) in both "
        "roles; records with exactly two cutter sites: members of the type, members of sibling types, generic records with random "
        "overhangs, members with one overhang letter changed (near-misses), at a random rotation. characterize(): on the four kit bases "
        "and on generated bases with 1..6 subclasses in both registration orders, for members of one subclass, of none, and of several; families whose candidates use different enzymes "
        "(MoCloPart and generated ones) with members of one candidate that carry another candidate's structure, intact or spoilt by a third site. "
        "Non-trivial = record with a unique generic match whose expected verdict was compared; distinct = distinct (class, record)."
        " Second session: members spoilt by a further copy of the site that opens the structure (the generic class refuses them, so must the part); every part entity is asked twice; members held as editable records, changed in place in one overhang letter and wrapped again.")
ASSUMPTIONS = ["records over ACGT with exactly one forward and one reverse cutter site (unique generic match)"]
FLOORS = {"c05_compared": 3000, "c05_expected_accept": 500, "c05_expected_reject": 500, "c05_characterize_calls": 300,
          "c05_characterize_returned": 100, "c05_characterize_raised": 50, "c05_late_subclass_characterizations": 50,
          "c05_mixed_enzyme_characterizations": 200}
MUST_REACH = ["AbstractPart.structure", "AbstractPart.characterize"]
BUDGET_S = {"quick": 900, "thorough": 7200}
MODES = ["member", "sibling", "generic", "nearmiss"]


def kit_part_classes():
    from moclo.core.parts import AbstractPart

    out = []
    for c in gen.concrete_kit_classes():
        if not issubclass(c, AbstractPart):
            continue
        own = c.__dict__.get("structure")
        if isinstance(own, staticmethod):
            continue  # literal structure (YTKPart234r)
        out.append(c)
    return out


def cases(tier, seed):
    out = []
    per = 60 if tier == "quick" else 8000
    for c in kit_part_classes():
        out.append({"kind": "kit", "cls": gen.class_name(c), "seed": seed, "count": per})
    nuser = 8 if tier == "quick" else 400
    for e in gen.enzyme_names():
        out.append({"kind": "user", "enzyme": e, "seed": seed, "nsig": nuser, "count": 12 if tier == "quick" else 40})
    out.append({"kind": "user-on-kit-bases", "seed": seed, "count": 10 if tier == "quick" else 60})
    for b in ["ytk.YTKPart", "cidar.CIDARPart", "ecoflex.EcoFlexPart", "moclo.MoCloPart"]:
        out.append({"kind": "characterize-kit", "base": b, "seed": seed, "count": 60 if tier == "quick" else 8000})
    for j in range(0, 40 if tier == "quick" else 6000, 10):
        out.append({"kind": "characterize-user", "from": j, "count": 10, "seed": seed})
    for j in range(0, 40 if tier == "quick" else 3000, 10):
        out.append({"kind": "characterize-mixed", "from": j, "count": 10, "seed": seed})
    return out


def materialise(case):
    return case


def generic_for(P):
    from moclo.core.modules import AbstractModule

    V, M = gen.generic_classes(str(P.cutter))
    return M if issubclass(P, AbstractModule) else V


class CharacterizeMonitor(object):
    def __init__(self, ctx):
        self.ctx = ctx

    def install(self):
        from moclo.core.parts import AbstractPart
        from moclo._utils import isabstract

        orig = AbstractPart.__dict__["characterize"].__func__
        ctx = self.ctx

        def characterize(cls, record):
            cands = list(cls.__subclasses__())
            # the receiver is its own candidate when it is a concrete type: judged here without the library's helper
            import inspect
            concrete = (not inspect.isabstract(cls) and isinstance(getattr(cls, "signature", None), tuple)
                        and getattr(cls, "cutter", NotImplemented) is not NotImplemented
                        and not any(getattr(cls, a, None) is NotImplemented for a in dir(cls)))
            if concrete:
                cands.append(cls)
            ctx.count("c05_characterize_calls")
            try:
                ent = orig(cls, record)
            except NotImplementedError as e:
                # a subclass of RuntimeError, but not the documented "could not find the type" failure: it means a
                # candidate without a usable signature was instantiated.  The workload never offers an abstract
                # *candidate* (every direct subclass of the family bases it builds is concrete), so on a correct
                # tree this cannot happen.
                ctx.count("c05_characterize_raised")
                ctx.violation("characterize-leaks-NotImplementedError", "%s.characterize raised NotImplementedError (%s) instead of reporting that no candidate type accepts the record; candidates %s" % (
                    cls.__name__, str(e)[:80], [c.__name__ for c in cands]), base=cls.__name__, seq=str(record.seq)[:600])
                raise
            except RuntimeError as e:
                ctx.count("c05_characterize_raised")
                acc = [c.__name__ for c in cands if _fresh_accepts(c, record)]
                if acc:
                    ctx.violation("characterize-raises-although-a-candidate-accepts", "%s.characterize raised RuntimeError but %s accept(s) the record" % (cls.__name__, acc),
                                  base=cls.__name__, seq=str(record.seq)[:600])
                raise
            except Exception as e:
                ctx.violation("characterize-wrong-exception:%s" % type(e).__name__, "%s.characterize raised %s: %s" % (cls.__name__, type(e).__name__, str(e)[:200]),
                              base=cls.__name__, seq=str(record.seq)[:600])
                raise
            ctx.count("c05_characterize_returned")
            if type(ent) not in cands:
                ctx.violation("characterize-returns-non-candidate", "%s.characterize returned a %s, which is not one of its candidate types %s" % (
                    cls.__name__, type(ent).__name__, [c.__name__ for c in cands]), base=cls.__name__, seq=str(record.seq)[:600])
            elif not _fresh_accepts(type(ent), record):
                ctx.violation("characterize-returns-non-accepting-type", "%s.characterize returned a %s, but a fresh %s does not accept the record" % (
                    cls.__name__, type(ent).__name__, type(ent).__name__), base=cls.__name__, seq=str(record.seq)[:600])
            elif ent.record is not record and str(ent.record.seq) != str(record.seq):
                ctx.violation("characterize-wraps-other-record", "%s.characterize wrapped a different record" % cls.__name__)
            return ent

        characterize.__verif_orig__ = AbstractPart.__dict__["characterize"]
        AbstractPart.characterize = classmethod(characterize)


def _fresh_accepts(cls, record):
    try:
        return bool(cls(record).is_valid())
    except Exception:
        return False


def worker_init(ctx, tier):
    CharacterizeMonitor(ctx).install()


def _record(text):
    from Bio.Seq import Seq
    from moclo.record import CircularRecord

    return CircularRecord(Seq(text), "r")


def _compare(ctx, P, text, mode):
    G = generic_for(P)
    site = P.cutter.site
    edited_from = None
    if mode == "edited":
        edited_from, text = text
    if mode == "extrasite":
        ctx.count("c05_compared_with_third_site")
    elif len(occurrences(text, site)) != 1 or len(occurrences(text, rc(site))) != 1:
        ctx.count("skipped_not_two_sites")
        return
    ctx.count("evaluations")
    g = G(_record(text))
    if edited_from is None:
        p = P(_record(text))
    else:
        # an editable record (MutableSeq) that was a member when the part class first looked at it, changed in place since
        # (one letter of an overhang), and wrapped again: the answer is about the text the record holds now
        from Bio.Seq import MutableSeq
        from moclo.record import CircularRecord
        rec = CircularRecord(MutableSeq(edited_from), "r")
        P(rec).is_valid()
        for i, (x, y) in enumerate(zip(edited_from, text)):
            if x != y:
                rec.seq[i] = y
        p = P(rec)
        p.is_valid()            # asked before anything else is searched
        ctx.count("c05_compared_after_edit_in_place")
    gv = g.is_valid()
    exp = bool(gv and sigmatch(P.signature[0], str(g.overhang_start())) and sigmatch(P.signature[1], str(g.overhang_end())))
    got = p.is_valid()
    ctx.count("c05_compared")
    ctx.count("c05_expected_accept" if exp else "c05_expected_reject")
    ctx.hist("mode_verdict", "%s:%s" % (mode, "accept" if exp else "reject"))
    ctx.nontrivial([P.__name__, P.signature, text])
    wit = dict(cls=P.__name__, signature=list(P.signature), cutter=str(P.cutter), role=G.__name__, text=text, mode=mode,
               generic_valid=gv, generic_overhangs=[str(g.overhang_start()), str(g.overhang_end())] if gv else None)
    if got is not exp:
        ctx.violation("part-%s-but-generic-and-signature-say-%s" % ("accepts" if got else "rejects", "accept" if exp else "reject"),
                      "%s (signature %s, %s) %s a record for which the signature-free class %s and reports overhangs %s" % (
                          P.__name__, P.signature, P.cutter, "accepts" if got else "rejects",
                          "accepts" if gv else "rejects", wit["generic_overhangs"]), **wit)
    # the same entity asked again gives the same answer (an answer is a function of class and record, not of the asking)
    again = p.is_valid()
    if again is not got:
        ctx.violation("part-answer-changes-when-asked-again:%s-then-%s" % ("accept" if got else "reject", "accept" if again else "reject"),
                      "%s(record).is_valid() said %s, and %s when the same entity was asked again" % (P.__name__, got, again), **wit)
    if got is not exp:
        pass
    elif got:
        a = (str(p.overhang_start()), str(p.overhang_end()), str(p.target_sequence().seq))
        b = (str(g.overhang_start()), str(g.overhang_end()), str(g.target_sequence().seq))
        if a != b:
            ctx.violation("part-values-differ-from-generic", "%s reports %r, the signature-free class %r" % (P.__name__, tuple(x[:30] for x in a), tuple(x[:30] for x in b)), **wit)


def _texts(rng, P, siblings, count):
    """records for a part class: members, siblings, generic, near-misses"""
    G = generic_for(P)
    for j in range(count):
        mode = MODES[j % 4]
        src = P if mode in ("member", "nearmiss") else (rng.choice(siblings) if mode == "sibling" and siblings else G)
        s = gen.instance(rng, src.structure(), run_max=25) + gen.rand_dna(rng, rng.randint(2, 20))
        if mode == "nearmiss":
            # change one letter inside one of the two overhangs: locate them with the string model
            fr = refmodel.module_fragment(s.upper(), refmodel.geometry(P.cutter))
            if fr is None:
                continue
            k = refmodel.geometry(P.cutter)[2]
            start = fr[0] if rng.random() < 0.5 else (fr[0] + len(fr[1])) % len(s)
            i = (start + rng.randrange(k)) % len(s)
            s = s[:i] + rng.choice([x for x in "ACGT" if x != s[i]]) + s[i + 1:]
        yield mode, rot_left(s, rng.randrange(len(s)))
    re_ = gen.rng_for("c05-edited", P.__name__, str(P.signature), count)
    for j in range(max(1, count // 6)):
        s = gen.instance(re_, P.structure(), run_max=25) + gen.rand_dna(re_, re_.randint(2, 20))
        geom = refmodel.geometry(P.cutter)
        fr = refmodel.module_fragment(s.upper(), geom)
        if fr is None:
            continue
        start = fr[0] if re_.random() < 0.5 else (fr[0] + len(fr[1])) % len(s)
        i = (start + re_.randrange(geom[2])) % len(s)
        t = s[:i] + re_.choice([x for x in "ACGT" if x != s[i].upper()]) + s[i + 1:]
        o = re_.randrange(len(s))
        yield "edited", (rot_left(s, o), rot_left(t, o))
    # members spoilt by a further copy of the site that *opens* the structure, placed inside it: the signature-free class
    # refuses such a plasmid (illegal site) and so must the part, every time it is asked.  A copy of the opening site only
    # adds possible match starts, never ends, so the leftmost match of the part is still the leftmost match of the generic class
    rx = gen.rng_for("c05-extrasite", P.__name__, str(P.signature), count)
    site = P.cutter.site
    for j in range(max(1, count // 4)):
        inst = gen.instance(rx, P.structure(), run_max=25)
        first = inst[:len(site)].upper()
        if first not in (site, rc(site)):
            continue
        i = len(inst) // 2 + rx.randint(-2, 2)
        s = inst[:i] + first + inst[i:] + gen.rand_dna(rx, rx.randint(2, 20))
        other = rc(first)
        if len(occurrences(s, first)) != 2 or len(occurrences(s, other)) != 1:
            continue
        yield "extrasite", rot_left(s, rx.randrange(len(s)))


def execute(mat, ctx):
    kind = mat["kind"]
    if kind == "kit":
        P = gen.class_by_name(mat["cls"])
        rng = gen.rng_for(mat["seed"], PROP, mat["cls"])
        sibs = [q for q in kit_part_classes() if q is not P and generic_for(q) is generic_for(P)]
        for mode, text in _texts(rng, P, sibs, mat["count"]):
            _compare(ctx, P, text, mode)
        ctx.sample({"kind": "kit", "class": mat["cls"], "signature": list(P.signature), "structure": P.structure()}, cap=2)
    elif kind == "user":
        from moclo.core.parts import AbstractPart

        enz = gen.enzyme(mat["enzyme"])
        k = refmodel.geometry(enz)[2]
        rng = gen.rng_for(mat["seed"], PROP, "user", mat["enzyme"])
        V, M = gen.generic_classes(mat["enzyme"])
        classes = []
        for j in range(mat["nsig"]):
            style = rng.choice(["exact", "exact", "iupac", "allN", "halfN"])
            def sig():
                if style == "exact":
                    return gen.rand_dna(rng, k)
                if style == "allN":
                    return "N" * k
                if style == "halfN":
                    return "".join(rng.choice(["N", rng.choice("ACGT")]) for _ in range(k))
                return "".join(rng.choice(sorted(IUPAC)) for _ in range(k))
            role = [V, M][j % 2]
            sg = (sig(), sig())
            if j % 5 >= 3:
                # a signature written in lower or mixed case (plain nucleotides only: a lower-case ambiguity code is not a code)
                spell = (lambda t: t.lower()) if j % 5 == 3 else (lambda t: "".join(c.lower() if i % 2 else c for i, c in enumerate(t)))
                sg = tuple("".join(spell(c) if c in "ACGT" else c for c in t) for t in sg)
                ctx.count("c05_user_signatures_not_upper_case")
            classes.append(type(str("User%s%d" % (mat["enzyme"], j)), (AbstractPart, role), {"cutter": enz, "signature": sg}))
        for P in classes:
            sibs = [q for q in classes if q is not P and generic_for(q) is generic_for(P)]
            for mode, text in _texts(rng, P, sibs, mat["count"]):
                _compare(ctx, P, text, mode)
        ctx.sample({"kind": "user", "enzyme": mat["enzyme"], "signatures": [list(c.signature) for c in classes][:4]}, cap=2)
    elif kind == "user-on-kit-bases":
        # user-defined part types whose module/vector base is a *kit* class (several of which override structure() by hand):
        # a part derives its structure from cutter + signature + role only, so the reference stays the signature-free generic class
        from moclo.core.parts import AbstractPart
        from moclo.core.modules import AbstractModule
        from moclo.core.vectors import AbstractVector

        roles = [c for c in gen.concrete_kit_classes() if not issubclass(c, AbstractPart)]
        rng = gen.rng_for(mat["seed"], PROP, "kitbases")
        made = []
        for j, role in enumerate(roles):
            k = refmodel.geometry(role.cutter)[2]
            for style in ("allN", "halfN", "exact"):
                if style == "allN":
                    sg = ("N" * k, "N" * k)
                elif style == "halfN":
                    sg = ("N" * k, gen.rand_dna(rng, k)) if rng.random() < 0.5 else (gen.rand_dna(rng, k), "N" * k)
                else:
                    sg = (gen.rand_dna(rng, k), gen.rand_dna(rng, k))
                made.append(type(str("Any%s_%s" % (role.__name__, style)), (AbstractPart, role), {"cutter": role.cutter, "signature": sg}))
        for P in made:
            sibs = [q for q in made if q is not P and generic_for(q) is generic_for(P)]
            for mode, text in _texts(rng, P, sibs, mat["count"]):
                _compare(ctx, P, text, mode)
        ctx.sample({"kind": kind, "bases": [r.__name__ for r in roles][:8], "signature_styles": ["allN", "halfN", "exact"]}, cap=1)
    elif kind == "characterize-kit":
        import importlib

        modname, clsname = mat["base"].split(".")
        kitbase = getattr(importlib.import_module("moclo.kits." + modname), clsname)
        subs = list(kitbase.__subclasses__())
        base = kitbase
        rng = gen.rng_for(mat["seed"], PROP, "char", mat["base"])
        for j in range(mat["count"]):
            ctx.count("evaluations")
            src = rng.choice(subs)
            how = rng.choice(["member", "member", "random", "mutant"])
            if how == "random":
                s = gen.rand_dna(rng, rng.randint(30, 120))
            else:
                s = gen.instance(rng, src.structure(), run_max=20) + gen.rand_dna(rng, rng.randint(2, 20))
                if how == "mutant":
                    i = rng.randrange(len(s))
                    s = s[:i] + rng.choice("ACGT") + s[i + 1:]
            s = rot_left(s, rng.randrange(len(s)))
            # from the kit's family base, and now and then from the concrete type itself (which is its own candidate)
            for b in (kitbase,) + ((src,) if j % 4 == 0 else ()):
                try:
                    b.characterize(_record(s))   # judged by the monitor
                except RuntimeError:
                    pass
                except NotImplementedError:
                    pass                          # recorded by the monitor as a wrong exception
            ctx.nontrivial([mat["base"], s])
        ctx.sample({"kind": "characterize-kit", "base": mat["base"], "candidates": [c.__name__ for c in subs][:6]}, cap=1)
    elif kind == "characterize-mixed":
        # families whose candidate types use different enzymes (as MoCloPart does: BsaI entries and a BpiI vector), and
        # records that belong to one candidate while carrying, in their backbone, the signature structure of another
        # candidate - intact, or spoilt by a third site of that candidate's enzyme
        import importlib
        from moclo.core.parts import AbstractPart

        def nested(rng, owner, other, spoil):
            inner = gen.instance(rng, other.structure(), run_min=10, run_max=24)
            if spoil:
                site = refmodel.geometry(other.cutter)[0]
                mid = len(inner) // 2
                inner = inner[:mid] + (site if rng.random() < 0.5 else rc(site)) + inner[mid:]
            s = gen.instance(rng, owner.structure(), run_min=4, run_max=20) + gen.rand_dna(rng, rng.randint(0, 6)) + inner + gen.rand_dna(rng, rng.randint(1, 8))
            return rot_left(s, rng.randrange(len(s)))

        for j in range(mat["from"], mat["from"] + mat["count"]):
            rng = gen.rng_for(mat["seed"], PROP, "charmixed", j)
            if j % 3 == 0:
                kitbase = getattr(importlib.import_module("moclo.kits.moclo"), "MoCloPart")
                subs = list(kitbase.__subclasses__())
                fam = kitbase
            else:
                names = rng.sample(gen.enzyme_names(), 2)
                fam = type(str("XBase%d" % j), (AbstractPart,), {"cutter": gen.enzyme(names[0])})
                subs = []
                order = [0, 1, 0, 1][:rng.randint(2, 4)]
                rng.shuffle(order)
                for i, e in enumerate(order):
                    enz = gen.enzyme(names[e])
                    k = refmodel.geometry(enz)[2]
                    role = gen.generic_classes(names[e])[rng.randrange(2)]
                    subs.append(type(str("XSub%d_%d" % (j, i)), (fam, role), {"cutter": enz, "signature": (gen.rand_dna(rng, k), gen.rand_dna(rng, k))}))
            for t in range(8):
                owner = rng.choice(subs)
                others = [c for c in subs if c.cutter is not owner.cutter] or [c for c in subs if c is not owner]
                if not others:
                    continue
                other = rng.choice(others)
                u = rng.random()
                if u < 0.25:
                    # a plain member of one candidate: it need not carry any site of the family base's own enzyme
                    s = gen.instance(rng, owner.structure(), run_min=4, run_max=20) + gen.rand_dna(rng, rng.randint(2, 12))
                    s = rot_left(s, rng.randrange(len(s)))
                    ctx.count("c05_mixed_enzyme_plain_members")
                else:
                    s = nested(rng, owner, other, spoil=u < 0.8)
                ctx.count("evaluations")
                ctx.count("c05_mixed_enzyme_characterizations")
                try:
                    fam.characterize(_record(s))      # judged by the monitor against fresh instances of every candidate
                except (RuntimeError, NotImplementedError):
                    pass
                ctx.nontrivial(["charmixed", j, s])
        ctx.sample({"kind": kind, "note": "families mixing enzymes; member of one candidate carrying another candidate's (spoilt) structure"}, cap=1)
    else:
        from moclo.core.parts import AbstractPart

        for j in range(mat["from"], mat["from"] + mat["count"]):
            rng = gen.rng_for(mat["seed"], PROP, "charuser", j)
            ename = rng.choice(gen.enzyme_names())
            enz = gen.enzyme(ename)
            k = refmodel.geometry(enz)[2]
            V, M = gen.generic_classes(ename)
            role = rng.choice([V, M])
            concrete_base = rng.random() < 0.3
            attrs = {"cutter": enz}
            if concrete_base:
                # a concrete family base: a catch-all (all N), or a type of its own whose subtypes do not refine its signature
                attrs["signature"] = ("N" * k, "N" * k) if j % 2 else (gen.rand_dna(gen.rng_for("c05-base-sig", j, 0), k), gen.rand_dna(gen.rng_for("c05-base-sig", j, 1), k))
            elif rng.random() < 0.5:
                attrs["signature"] = NotImplemented      # restated, as the bundled kit bases do
            # else: the family base merely inherits signature = NotImplemented from AbstractPart
            base = type(str("UBase%d" % j), (AbstractPart,), attrs) if not concrete_base else type(str("UBase%d" % j), (AbstractPart, role), attrs)
            if not concrete_base and rng.random() < 0.3:
                base = type(str("UMid%d" % j), (base,), {"__doc__": "intermediate family base adding nothing"})
            subs = []
            nsub = rng.randint(1, 6)
            sigs = [(gen.rand_dna(rng, k), gen.rand_dna(rng, k)) for _ in range(nsub)]
            if rng.random() < 0.5:
                sigs = sigs[::-1]
            for i, sg in enumerate(sigs):
                subs.append(type(str("USub%d_%d" % (j, i)), (base, role) if not concrete_base else (base,), {"signature": sg}))
            for t in range(8):
                ctx.count("evaluations")
                how = rng.choice(["member", "member", "none", "generic"])
                if how == "member":
                    s = gen.instance(rng, rng.choice(subs).structure(), run_max=15)
                elif how == "generic":
                    s = gen.instance(rng, role.structure(), run_max=15)
                else:
                    s = gen.rand_dna(rng, 60)
                s = rot_left(s + gen.rand_dna(rng, rng.randint(2, 15)), rng.randrange(10))
                try:
                    base.characterize(_record(s))
                except (RuntimeError, NotImplementedError):
                    pass
                ctx.nontrivial(["charuser", j, s])
            # a concrete type of the family is itself refined by a user (another signature): the refinement is a candidate of
            # its parent, not of the family base
            gsig = (gen.rand_dna(gen.rng_for("c05-grand", j, 0), k), gen.rand_dna(gen.rng_for("c05-grand", j, 1), k))
            grand = type(str("UGrand%d" % j), (subs[0],), {"signature": gsig})
            rg = gen.rng_for("c05-grand-text", j)
            for t in range(2):
                ctx.count("evaluations")
                ctx.count("c05_grandchild_characterizations")
                s = gen.instance(rg, grand.structure(), run_max=15) + gen.rand_dna(rg, rg.randint(2, 15))
                try:
                    base.characterize(_record(rot_left(s, rg.randrange(10))))     # judged by the monitor
                except (RuntimeError, NotImplementedError):
                    pass
            # a new type declared *after* the family base has been used: it is a candidate from then on
            late_sig = (gen.rand_dna(rng, k), gen.rand_dna(rng, k))
            late = type(str("ULate%d" % j), (base, role) if not concrete_base else (base,), {"signature": late_sig})
            for t in range(3):
                ctx.count("evaluations")
                ctx.count("c05_late_subclass_characterizations")
                s = gen.instance(rng, late.structure(), run_max=15) + gen.rand_dna(rng, rng.randint(2, 15))
                try:
                    base.characterize(_record(rot_left(s, rng.randrange(10))))
                except (RuntimeError, NotImplementedError):
                    pass

"""Shared assembly workload: generated Golden-Gate assemblies over generic
classes for every supported enzyme geometry, optionally annotated (feature
tables, reference lists / citation qualifiers), every plasmid independently
rotated (hostile rotations over-sampled) and the argument list permuted.

Materialised form ("assembly-mat"), everything as handed to the API:
  {"kind": "assembly-mat", "enzyme": name, "vector": recspec, "modules": [recspec, ...] (argument order),
   "id": ..., "name": ..., "chain": [indices into modules, chain order], "built": {...construction notes...}}
"""
import warnings

from .. import gen, refmodel
from ..util import rot_left, rc

JUNCTION_SITE_P = 0.08     # share of generated assemblies whose product carries a junction-spanning site


DEFAULT_OPTS = {
    "features": True, "refs": False, "max_chain": 4, "rotate": True, "permute": True,
    "tmax": 40, "bmax": 40, "pmax": 40,
}


def assembly_cases(seed, count, enzymes=None, **opts):
    names = enzymes or gen.enzyme_names()
    out = []
    for i in range(count):
        out.append({"kind": "assembly", "i": i, "seed": seed, "enzyme": names[i % len(names)], "opts": opts})
    return out


def _snap_features(rng, n, f0, flen, tag, count, refs=0, origin=0):
    """feature specs over an (unrotated) record of length n whose retained fragment is
    [f0, f0+flen) circularly; a mix of uniform and boundary-snapped locations"""
    feats = []
    f1 = f0 + flen
    for j in range(count):
        strand = rng.choice([1, -1, None])
        mode = rng.choice(["uniform", "uniform", "inside", "touch-start", "touch-end", "cross-start", "cross-end",
                           "whole-fragment", "join-inside", "nested", "abut", "at-origin"])
        parts = None
        if mode == "uniform" or flen < 2:
            parts, _ = gen.rand_feature_parts(rng, n, strand=strand)
            kind = "uniform"
        else:
            kind = mode
            if mode == "inside":
                a = rng.randint(f0, f1 - 1)
                b = rng.randint(a + 1, f1)
            elif mode == "touch-start":
                a = f0
                b = rng.randint(a + 1, f1)
            elif mode == "touch-end":
                b = f1
                a = rng.randint(f0, b - 1)
            elif mode == "cross-start":
                a = f0 - rng.randint(1, 2)
                b = rng.randint(f0 + 1, f1)
            elif mode == "cross-end":
                b = f1 + rng.randint(1, 2)
                a = rng.randint(f0, f1 - 1)
            elif mode == "whole-fragment":
                a, b = f0, f1
            elif mode == "at-origin":
                # starts exactly at what will be position 0 of the record handed to the API
                a = origin
                while a < f0 - n // 2:
                    a += n
                b = a + rng.randint(1, max(1, min(flen, n - 1)))
            elif mode in ("nested", "abut") and feats:
                prev = feats[-1]["parts"][0]
                if mode == "nested" and prev[1] - prev[0] >= 2:
                    a = rng.randint(prev[0], prev[1] - 1)
                    b = rng.randint(a + 1, prev[1])
                else:
                    a = prev[1]
                    b = a + rng.randint(1, 5)
            else:
                a = rng.randint(f0, f1 - 1)
                b = rng.randint(a + 1, f1)
            if mode == "join-inside" and flen >= 4:
                cuts = sorted(rng.sample(range(f0, f1 + 1), 4))
                parts = [[cuts[0], cuts[1], strand], [cuts[2], cuts[3], strand]]
                if strand == -1:
                    parts = parts[::-1]
            else:
                if b - a > n:
                    b = a + n
                parts = [[a, b, strand]]
            # bring into canonical coordinates: start in [0, n)
            parts = gen.rotate_parts(parts, 0, n)
        q = {"uid": ["%s.%d" % (tag, j)], "note": ["kind %s" % kind]}
        if refs and rng.random() < 0.7:
            q["citation"] = ["[%d]" % (rng.randint(10, refs) if refs >= 10 and rng.random() < 0.6 else rng.randint(1, refs))
                             for _ in range(rng.randint(1, min(3, refs)))]
            if rng.random() < 0.5:  # distinct citations only
                q["citation"] = sorted(set(q["citation"]))
        feats.append({"type": rng.choice(["CDS", "misc_feature", "promoter", "terminator", "source"]), "parts": parts, "quals": q})
    return feats


def _split_wrapping(rng, parts, n):
    """randomly rewrite parts that pass the end as GenBank would store them
    (an origin-spanning join) instead of the past-the-end form rotation produces"""
    out = []
    for a, b, s in parts:
        if b > n and a < n and rng.random() < 0.7:
            two = [[a, n, s], [0, b - n, s]]
            if s == -1:
                two = two[::-1]
            out.extend(two)
        else:
            out.append([a, b, s])
    return out


def _rotate_spec(rng, spec, r):
    """rotate a record spec left by r with the harness's own model"""
    n = len(spec["seq"])
    out = dict(spec)
    out["seq"] = rot_left(spec["seq"], r)
    feats = []
    for f in spec.get("features", []):
        g = dict(f)
        parts = gen.rotate_parts(f["parts"], -r, n)
        if len(parts) == 1 and parts[0][0] == 0 and parts[0][1] == n:
            pass
        g["parts"] = _split_wrapping(rng, parts, n)
        feats.append(g)
    out["features"] = feats
    return out


REF_POOL = 18


def _ref(i):
    # references 0..2 share their title (GenBank's ubiquitous "Direct Submission") and differ in authors and
    # journal; 3 and 4 share authors; every reference is still identified by its full field tuple
    title = "Direct Submission" if i < 3 else "Title %d" % i
    authors = "Author 3" if i in (3, 4) else "Author %d" % i
    return {"title": title, "authors": authors, "journal": "Journal %d" % i}


def materialise_assembly(case):
    if case.get("kind") == "assembly-mat":
        return case
    opts = dict(DEFAULT_OPTS)
    opts.update(case.get("opts") or {})
    rng = gen.rng_for(case["seed"], "assembly", case["enzyme"], case["i"], sorted(opts.items()))
    enz = gen.enzyme(case["enzyme"])
    geom = refmodel.geometry(enz)
    site, nn, k = geom
    cap = gen.max_distinct_overhangs(k) - 1
    nm = rng.randint(1 if opts["max_chain"] <= 6 else 7, max(1, min(opts["max_chain"], cap)))
    for attempt in range(50):
        # some overhang choices cannot be embedded without creating a further site; draw again
        ov = gen.gen_overhangs(rng, k, nm + 1, forbid=(site, rc(site)), palindromes=opts.get("palindromes", 0.5))
        if nm >= 2 and opts.get("rc_closing", True) and rng.random() < 0.15:
            # the vector's upstream overhang is the reverse complement of an inner junction: module start overhangs are still
            # pairwise distinct and non-complementary, so the chain is complete and unambiguous for the library's rules
            j = rng.randint(1, nm - 1)
            if rc(ov[j]) != ov[j] and rc(ov[j]) not in ov[:nm]:
                ov[nm] = rc(ov[j])
        # own stream: now and then the product gets a recognition site that none of the inputs has - it comes into being
        # across one of the two vector junctions (end of one retained fragment + fusion site + start of the next)
        pins = {}
        rj = gen.rng_for(case["seed"], "assembly-junction-site", case["enzyme"], case["i"], attempt)
        if len(site) >= k + 2 and rj.random() < JUNCTION_SITE_P:
            w = site if rj.random() < 0.5 else rc(site)
            i = rj.randint(1, len(site) - k - 1)
            left, mid, right = w[:i], w[i:i + k], w[i + k:]
            j = rj.choice([0, nm])
            others = [o for jj, o in enumerate(ov) if jj != j]
            if mid not in others and rc(mid) not in others and (mid != rc(mid)) and not (j == nm and mid == rc(ov[0])) and not (j == 0 and mid == rc(ov[nm])):
                ov[j] = mid
                pins = {"b_suffix": left, "t_first": right} if j == 0 else {"t_last": left, "b_prefix": right}
        try:
            v = gen.build_vector(rng, geom, o_start=ov[nm], o_end=ov[0], plen=rng.randint(0, opts["pmax"]), blen=rng.randint(2, opts["bmax"]),
                                 b_prefix=pins.get("b_prefix", ""), b_suffix=pins.get("b_suffix", ""))
            mods = [gen.build_module(rng, geom, ov[i], ov[i + 1], rng.randint(2, opts["tmax"]), rng.randint(0, opts["bmax"]),
                                     t_prefix=pins.get("t_first", "") if i == 0 else "", t_suffix=pins.get("t_last", "") if i == nm - 1 else "") for i in range(nm)]
            break
        except RuntimeError:
            continue
    else:
        raise RuntimeError("cannot build a well-formed assembly for %s" % case["enzyme"])
    built = [v] + mods
    specs = []
    for idx, b in enumerate(built):
        rid = "vec" if idx == 0 else "mod%d" % (idx - 1)
        spec = {"id": rid, "name": rid, "seq": b["seq"], "features": []}
        n = len(b["seq"])
        nrefs = 0
        if opts["refs"]:
            nrefs = rng.randint(0, 5) if rng.random() < 0.8 else rng.randint(10, 14)   # two-digit citation indices now and then
            if nrefs or rng.random() < 0.5:
                # pairwise distinct within a record; shared between records through the common pool
                spec["refs"] = [dict(_ref(j), span=rng.random() < 0.5) for j in rng.sample(range(REF_POOL), nrefs)]
        if spec.get("refs"):
            # own stream: some references are about a part of the plasmid only ("bases 120 to 480")
            rs = gen.rng_for(case["seed"], "assembly-ref-spans", case["enzyme"], case["i"], idx)
            for ref in spec["refs"]:
                if ref["span"] and rs.random() < 0.4:
                    a = rs.randrange(n)
                    ref["span"] = [[a, rs.randint(a + 1, n)]]
        r = 0
        if opts["rotate"]:
            if rng.random() < 0.6:
                # hostile: origin inside the flanking structure or at the ends of the fragment
                width = len(site) + nn + k + 2
                if idx == 0:
                    a, e = 0, b["frag_start"] + k      # structure of a vector: [0, frag_start + k)
                else:
                    a, e = 0, b["frag_start"] + b["frag_len"] + k + nn + len(site)
                r = rng.choice(gen.hostile_rotations(rng, n, a, e, width, extra=0) +
                               [b["frag_start"], b["frag_start"] + 1, (b["frag_start"] + b["frag_len"] - 1) % n])
            else:
                r = rng.randrange(n)
        r %= n
        if opts["features"]:
            spec["features"] = _snap_features(rng, n, b["frag_start"], b["frag_len"], rid, rng.randint(0, 8), refs=nrefs, origin=r)
        # own stream (the draws above stay what they were): record-wide annotations as plasmid editors and parsers produce them
        ann = gen.annotation_variety(case["seed"], "assembly", case["enzyme"], case["i"], idx)
        if ann is not None:
            spec["annotations"] = ann
        spec = _rotate_spec(rng, spec, r)
        lt = gen.letter_track_variety(n, case["seed"], "assembly", case["enzyme"], case["i"], idx)
        if lt is not None:
            spec["letters"] = lt         # a per-letter track (sequencing quality) in one of the three legal container types
        spec["built"] = {"rot_left": r, "frag_start_unrotated": b["frag_start"], "frag_len": b["frag_len"]}
        specs.append(spec)
    order = list(range(nm))
    if opts["permute"]:
        rng.shuffle(order)
    modules = [specs[1 + i] for i in order]
    chain = [order.index(i) for i in range(nm)]
    return {"kind": "assembly-mat", "enzyme": case["enzyme"], "vector": specs[0], "modules": modules,
            "chain": chain, "id": "prod%d" % case["i"], "name": "name%d" % case["i"], "overhangs": ov}


def expected_product(mat):
    """closed-form product computed by the string model from the final input strings
    (independent of how the case was constructed); returns (text, fragments) where
    fragments = [(record id, start index in that record, length)] in product order
    starting with the vector fragment"""
    geom = refmodel.geometry(gen.enzyme(mat["enzyme"]))
    vs = mat["vector"]["seq"].upper()
    ms = [m["seq"].upper() for m in mat["modules"]]
    order = refmodel.chain_order(vs, ms, geom)
    if order is None:
        return None, None, None
    vf = refmodel.vector_fragment(vs, geom)
    frags = [(mat["vector"]["id"], vf[0], len(vf[1]))]
    text = [vf[1]]
    for i in order:
        mf = refmodel.module_fragment(ms[i], geom)
        frags.append((mat["modules"][i]["id"], mf[0], len(mf[1])))
        text.append(mf[1])
    return "".join(text), frags, order


def run_assembly(mat, ctx=None, classes=None, records=None, kwargs=True, inspect_first=None, rename_after_wrap=False):
    """call the real assemble(); returns dict(outcome='product'|'error', product, error, warnings, inputs, entities).
    inspect_first: the entities are first asked for validity, overhangs, target (and placeholder) - what a user
    looking at the parts before assembling them does - and then the *same entity objects* are assembled
    (default: every third case, decided by the case id)."""
    V, M = classes or gen.generic_classes(mat["enzyme"])
    Ms = [M] * len(mat["modules"])
    if classes is None:
        # half of the generated assemblies use classes of the library's level hierarchy, in every pairing the sticky ends
        # allow - the linear one (products into entry vectors ...) and the cyclic ones (devices back into cassette vectors)
        rl = gen.rng_for("levels", mat.get("id"), mat["enzyme"], mat["vector"]["seq"][:16])
        if rl.random() < 0.5:
            vs, ms = gen.level_classes(mat["enzyme"])
            V = vs[rl.choice(sorted(vs))]
            Ms = [ms[rl.choice(sorted(ms))] for _ in mat["modules"]] if rl.random() < 0.5 else [ms[rl.choice(sorted(ms))]] * len(mat["modules"])
            if ctx is not None:
                ctx.count("assemblies_with_level_classes")
    if records is None:
        vrec = gen.make_record(mat["vector"])
        mrecs = [gen.make_record(m) for m in mat["modules"]]
    else:
        vrec, mrecs = records
    vec = V(vrec)
    mods = [Mi(r) for Mi, r in zip(Ms, mrecs)]
    # own stream: now and then the entities a user assembles are copies of the ones first made (copy.copy keeps the record,
    # copy.deepcopy - only for records made here - duplicates it)
    rc_ = gen.rng_for("entity-copies", mat.get("id"), mat["enzyme"], mat["vector"]["seq"][:16])
    u = rc_.random()
    if u < 0.1:
        import copy
        vec, mods = copy.copy(vec), [copy.copy(m) for m in mods]
        if ctx is not None:
            ctx.count("assemblies_of_copied_entities")
    elif u < 0.16 and records is None:
        import copy
        vec, mods = copy.deepcopy(vec), [copy.deepcopy(m) for m in mods]
        vrec, mrecs = vec.record, [m.record for m in mods]
        if ctx is not None:
            ctx.count("assemblies_of_copied_entities")
    if inspect_first is None:
        inspect_first = sum(map(ord, str(mat.get("id", "")))) % 3 == 0
    if inspect_first:
        for e in [vec] + mods:
            try:
                if e.is_valid():
                    e.overhang_start()
                    e.overhang_end()
                    e.target_sequence()
                    if hasattr(e, "placeholder_sequence"):
                        e.placeholder_sequence()
            except Exception:
                pass
        if ctx is not None:
            ctx.count("assemblies_with_entities_inspected_first")
    if rename_after_wrap:
        # the plasmids are given their final names only after they were typed (wrapped in their classes)
        for e in [vec] + mods:
            e.record.id = e.record.id + "_v2"
            e.record.name = e.record.id
    kw = {"id": mat.get("id", "assembly"), "name": mat.get("name", "assembly")} if kwargs else {}
    res = {"vector": vec, "modules": mods, "vrec": vrec, "mrecs": mrecs}
    with warnings.catch_warnings(record=True) as w:
        warnings.simplefilter("always")
        try:
            res["product"] = vec.assemble(*mods, **kw)
            res["outcome"] = "product"
        except Exception as e:  # judged by the caller
            res["error"] = e
            res["outcome"] = "error"
    res["warnings"] = [x for x in w]
    if ctx is not None:
        ctx.count("assemble_calls")
    return res


# ----------------------------------------------------------------------------- registry assemblies (derived, not hard-coded)

def _registry_graph():
    """per registry: model view of each item: (key, cls, record, role, cutter name, v_start/start, v_end/end)"""
    from .. import regs, asmmon
    from moclo.core.vectors import AbstractVector

    out = {}
    for rname, key, cls, rec in regs.items():
        enz = cls.cutter
        if not asmmon.supported_cutter(enz):
            continue
        text = str(rec.seq).upper()
        if set(text) - set("ACGT"):
            continue
        fr = refmodel.module_fragment(text, refmodel.geometry(enz))
        if fr is None:
            continue
        try:
            if not cls(rec).is_valid():
                continue
        except Exception:
            continue
        role = "V" if issubclass(cls, AbstractVector) else "M"
        out.setdefault(rname, []).append({"key": key, "cls": cls, "rec": rec, "role": role, "enz": str(enz), "start": fr[2], "end": fr[3]})
    return out


def registry_assembly_cases(seed, per_vector=2, max_len=9):
    """sample chains from every registry vector's downstream overhang back to its upstream overhang through
    registry modules of the same cutter (random walks over the overhang graph read off by the string model)"""
    graph = _registry_graph()
    cases = []
    for rname in sorted(graph):
        its = graph[rname]
        vectors = [x for x in its if x["role"] == "V"]
        if rname == "plant":
            vectors = [{"key": None, "generated": {"enzyme": "BsaI", "o_start": "CGCT", "o_end": "GGAG"}, "enz": "BsaI", "start": "CGCT", "end": "GGAG"}]
        for v in vectors:
            mods = [x for x in its if x["role"] == "M" and x["enz"] == v["enz"]]
            by_start = {}
            for m in mods:
                by_start.setdefault(m["start"], []).append(m)
            found = 0
            for attempt in range(per_vector * 12):
                if found >= per_vector:
                    break
                rng = gen.rng_for(seed, "regasm", rname, v["key"], attempt)
                cur, chain, starts = v["end"], [], set()
                while cur != v["start"] and len(chain) <= max_len:
                    cands = [m for m in by_start.get(cur, []) if m["start"] not in starts and rc(m["start"]) not in starts
                             and m["start"] != rc(m["start"])]
                    if not cands:
                        chain = None
                        break
                    m = rng.choice(cands)
                    chain.append(m)
                    starts.add(m["start"])
                    cur = m["end"]
                if not chain or cur != v["start"]:
                    continue
                found += 1
                order = list(range(len(chain)))
                rng.shuffle(order)
                cases.append({"kind": "registry-asm", "reg": rname, "vector": v["key"], "generated": v.get("generated"),
                              "modules": [chain[i]["key"] for i in order], "seed": seed, "n": attempt,
                              "rots": [rng.random() for _ in range(len(chain) + 1)]})
    return cases


def registry_records(mat, with_features=False, rotate=True):
    """(vector class, vector record, [(module class, module record)]) for a registry-asm case.
    Records are rotated by the harness's own string rotation (features dropped) unless with_features,
    in which case the library's >> is used on a deep copy (the path a user takes)."""
    import copy
    from Bio.Seq import Seq
    from moclo.record import CircularRecord
    from .. import regs

    index = {(r, k): (cls, rec) for r, k, cls, rec in regs.items()}

    def prep(cls, rec, frac):
        n = len(rec)
        r = int(frac * n) % n if rotate else 0
        if with_features:
            c = CircularRecord(rec)
            return cls, (c << r if r else c)
        return cls, CircularRecord(Seq(rot_left(str(rec.seq), r)), id=rec.id, name=rec.name)

    if mat.get("generated"):
        g = mat["generated"]
        rng = gen.rng_for(mat["seed"], "genvec", mat["reg"])
        geom = refmodel.geometry(gen.enzyme(g["enzyme"]))
        b = gen.build_vector(rng, geom, g["o_start"], g["o_end"], plen=30, blen=60)
        V, _ = gen.generic_classes(g["enzyme"])
        vcls, vrec = prep(V, CircularRecord(Seq(b["seq"]), id="genvec", name="genvec"), mat["rots"][0])
    else:
        vcls, vrec = prep(*index[(mat["reg"], mat["vector"])], frac=mat["rots"][0])
    mods = [prep(*index[(mat["reg"], k)], frac=mat["rots"][1 + i]) for i, k in enumerate(mat["modules"])]
    return vcls, vrec, mods


def run_registry_assembly(mat, ctx=None, with_features=False):
    vcls, vrec, mods = registry_records(mat, with_features)
    vec = vcls(vrec)
    ents = [c(r) for c, r in mods]
    res = {"vector": vec, "modules": ents}
    with warnings.catch_warnings(record=True) as w:
        warnings.simplefilter("always")
        try:
            res["product"] = vec.assemble(*ents, id="regprod", name="regprod")
            res["outcome"] = "product"
        except Exception as e:
            res["error"] = e
            res["outcome"] = "error"
    res["warnings"] = list(w)
    if ctx is not None:
        ctx.count("registry_assemblies")
    return res


# ----------------------------------------------------------------------------- the repository's own tests as a workload

def run_repo_tests_under_monitors(ctx, which, prop):
    """run the repository's test suite in a subprocess with the pytest plugin installing the named
    monitors; merge what they observed into ctx.  A failing *test* is not this harness's business
    (the baseline decides that); only monitor observations are merged."""
    import json
    import os
    import subprocess
    import sys
    import tempfile
    from .. import boot, core

    fd, out = tempfile.mkstemp(prefix="verif-plugin-", suffix=".json")
    os.close(fd)
    env = dict(os.environ, MOCLO_VERIF="1", PYTHONPATH=core.VERIF + os.pathsep + os.environ.get("PYTHONPATH", ""),
               VERIF_PLUGIN_MONITORS=",".join(which), VERIF_PLUGIN_OUT=out, VERIF_PLUGIN_PROP=prop, MOCLO_REPO=boot.REPO,
               PYTHONWARNINGS="ignore::UserWarning:property_cached,ignore::DeprecationWarning")
    try:
        p = subprocess.run([sys.executable, "-m", "pytest", "-q", "-p", "mon.pytest_plugin", "-p", "no:cacheprovider", "--timeout=900", "tests"],
                           cwd=boot.REPO, env=env, stdout=subprocess.PIPE, stderr=subprocess.STDOUT, timeout=1800)
        with open(out) as f:
            txt = f.read()
        if not txt:
            raise core.Inconclusive("pytest plugin wrote nothing: " + p.stdout.decode()[-400:])
        d = json.loads(txt)
    finally:
        os.unlink(out)
    for k, v in d["counters"].items():
        ctx.counters[k] += v
    for k, h in d["hists"].items():
        for kk, v in h.items():
            ctx.hists[k][kk] += v
    for v in d["violations"]:
        ctx.viol_by_mech[v["mechanism"]] += 0
        if len(ctx.violations) < ctx.MAX_VIOL:
            ctx.violations.append(v)
    for k, v in d["viol_by_mech"].items():
        ctx.viol_by_mech[k] += v
    ctx.count("repo_test_suite_runs")
    ctx.hist("repo_test_suite_exit", d.get("pytest_exitstatus"))

"""C20 - Registries are coherent read-only mappings of uniquely identified plasmids."""
import io
import os
import shutil
import sys
import tarfile
import tempfile

from .. import gen, regs, boot
from ..monitors import wrap_method

PROP = "C20"
LEVEL = "exploration"
DESIGN_REF = "DESIGN.md section 4, C20"
TECHNIQUE = "runtime monitor: wrappers on the mapping methods of the three registry classes + an audit hook on open(), judged against the harness's own knowledge of the archive members / directory contents"
LEVEL_TEXT = ("All five embedded registries are walked exhaustively (every key looked up) with the expected key set read from the archive "
              "with tarfile directly; generated directories (in-memory and on-disk filesystems) of typed plasmids under hostile file "
              "names, extensions, sub-directories and junk files are opened as FilesystemRegistry; random sequences of combinations with "
              "overlapping and repeated members are checked against a dict model (first added wins). An audit hook reports any file "
              "opened for writing while a registry is in use.")
LEVEL_NOTE = "trusts tarfile, PyFilesystem2 and the label->antibiotic table typed into the harness (KanR/KnR, CamR/CmR, AmpR, SmR/SpecR)"
RULE = ("embedded: ytk, ptk, cidar, ecoflex, plant - every item (exhaustive, 362 plasmids); directories: 0..12 typed plasmids of the YTK, "
        "CIDAR and EcoFlex part families written as GenBank under stems with dots/dashes/spaces/unicode, extensions from {gb, gbk} and "
        "unsupported {gbff, txt, fasta, GB, gb.bak}, custom extensions= tuples, sub-directories (one named like a GenBank file) holding "
        "plasmids, junk files; absent keys include sub-directory names, junk stems, unsupported-extension stems, keys with path "
        "separators and parent references; embedded registries re-used (same and new instance) after a first load aborted by an exception injected at a random record; combinations: sequences of 1..5 members drawn with repetition from embedded registries, generated "
        "directories sharing ids with them, and nested combinations of these. Non-trivial = a registry with >= 1 key whose every item was looked up, or a combination with a shared id; "
        "distinct = distinct registry contents."
        " Second session: files under a supported extension in another letter case (optional keys: listed or not, but coherent), file names of present stems as absent keys, Item.record read for every item, directory members judged against the files written, twin directories with the same file names, a cassette label repeated on its feature.")
ASSUMPTIONS = ["directory entries that are typed GenBank plasmids have pairwise distinct stems", "the eLabFTW (network) registry is out of scope"]
FLOORS = {"c20_regrown_members": 10, "c20_aborted_load_scenarios": 4, "c20_items_checked": 400, "c20_absent_keys_checked": 300, "c20_directories": 40, "c20_combinations": 30, "c20_shared_id_checks": 20, "c20_embedded_registries": 5}
MUST_REACH = ["EmbeddedRegistry.__iter__", "EmbeddedRegistry.__len__", "FilesystemRegistry.__getitem__", "CombinedRegistry.add_registry"]
NEEDS_REGISTRIES = True
BUDGET_S = {"quick": 900, "thorough": 7200}
ANTIBIOTIC = {"KanR": "Kanamycin", "KnR": "Kanamycin", "CamR": "Chloramphenicol", "CmR": "Chloramphenicol",
              "AmpR": "Ampicillin", "SmR": "Spectinomycin", "SpecR": "Spectinomycin"}


def setup(tier):
    regs.items()


def cases(tier, seed):
    out = [{"kind": "embedded", "reg": r} for r in regs.NAMES]
    out += [{"kind": "embedded-after-aborted-load", "reg": r, "seed": seed, "n": n} for r in regs.NAMES for n in range(1 if tier == "quick" else 6)]
    n = 60 if tier == "quick" else 6000
    out += [{"kind": "directory", "i": i, "seed": seed, "fs": "mem" if i % 3 else "os"} for i in range(n)]
    out += [{"kind": "combined", "i": i, "seed": seed} for i in range(40 if tier == "quick" else 4000)]
    return out


def materialise(case):
    return case


_state = {"in_use": False, "writes": []}


def worker_init(ctx, tier):
    def hook(event, args):
        if event == "open" and _state["in_use"]:
            mode = args[1] if len(args) > 1 else None
            if isinstance(mode, str) and any(c in mode for c in "wax+"):
                _state["writes"].append((str(args[0]), mode))

    sys.addaudithook(hook)
    from moclo.registry import base

    def counter(name):
        def post(self, a, kw, res, exc, token):
            ctx.count("calls_" + name)
        return post

    for cls in (base.EmbeddedRegistry, base.FilesystemRegistry, base.CombinedRegistry):
        for m in ("__iter__", "__len__", "__getitem__"):
            if m in cls.__dict__:
                wrap_method(cls, m, counter(cls.__name__ + m))


def check_item(ctx, R, k, label, wit):
    from moclo.record import CircularRecord

    ctx.count("c20_items_checked")
    try:
        it = R[k]
    except Exception as e:
        ctx.violation("yielded-key-lookup-raises:%s:%s" % (label.split(":")[0], type(e).__name__), "%s: key %r is yielded by iteration but R[key] raised %s: %s" % (
            label, k, type(e).__name__, str(e)[:160]), key=k, **wit)
        return None
    if it.id != k:
        ctx.violation("item-id-differs-from-key:" + label.split(":")[0], "%s: R[%r].id is %r" % (label, k, it.id), key=k, **wit)
    rec = getattr(it.entity, "record", None)
    if rec is None or rec.id != k:
        ctx.violation("record-id-differs-from-key:" + label.split(":")[0], "%s: R[%r].entity.record.id is %r" % (label, k, getattr(rec, "id", None)), key=k, **wit)
    # the item's own accessor for the record it holds (`Item.record`) must show that same circular record
    try:
        rec2 = it.record
    except Exception as e:
        ctx.violation("item-record-accessor-raises:%s" % type(e).__name__, "%s: R[%r].record raised %s: %s" % (label, k, type(e).__name__, str(e)[:120]), key=k, **wit)
    else:
        ctx.count("c20_item_record_accessor_read")
        if not isinstance(rec2, CircularRecord) or rec2.id != k or (rec is not None and str(rec2.seq) != str(rec.seq)):
            ctx.violation("item-record-accessor-differs:" + label.split(":")[0], "%s: R[%r].record is a %s with id %r, not the circular record %r the entity holds" % (
                label, k, type(rec2).__name__, getattr(rec2, "id", None), k), key=k, **wit)
    if not isinstance(rec, CircularRecord):
        ctx.violation("record-not-circular:" + label.split(":")[0], "%s: R[%r] holds a %s" % (label, k, type(rec).__name__), key=k, **wit)
    else:
        labels = set()
        for f in rec.features:
            labels.update(f.qualifiers.get("label", []))
        allowed = {ANTIBIOTIC[l] for l in labels if l in ANTIBIOTIC}
        if it.resistance not in allowed:
            ctx.violation("resistance-not-from-labels:" + label.split(":")[0], "%s: R[%r].resistance is %r but the record's resistance-cassette labels give %s" % (
                label, k, it.resistance, sorted(allowed)), key=k, **wit)
    try:
        if k not in R:
            ctx.violation("yielded-key-not-contained:" + label.split(":")[0], "%s: key %r is yielded but `key in R` is False" % (label, k), key=k, **wit)
    except Exception as e:
        ctx.violation("contains-raises:%s" % type(e).__name__, "%s: %r in R raised %s" % (label, k, type(e).__name__), key=k, **wit)
    return it


def check_absent(ctx, R, k, label, wit, why):
    ctx.count("c20_absent_keys_checked")
    try:
        it = R[k]
        ctx.violation("absent-key-found:" + why, "%s: key %r (%s) is not yielded by iteration but R[key] returns item %r" % (label, k, why, getattr(it, "id", it)), key=k, **wit)
    except KeyError:
        pass
    except Exception as e:
        ctx.violation("absent-key-wrong-error:%s:%s" % (why, type(e).__name__), "%s: looking up the absent key %r (%s) raised %s instead of KeyError: %s" % (
            label, k, why, type(e).__name__, str(e)[:120]), key=k, **wit)
    try:
        if k in R:
            ctx.violation("absent-key-contained:" + why, "%s: %r in R is True for a key (%s) that iteration does not yield" % (label, k, why), key=k, **wit)
    except Exception as e:
        ctx.violation("absent-key-contains-raises:%s:%s" % (why, type(e).__name__), "%s: %r in R raised %s" % (label, k, type(e).__name__), key=k, **wit)


def check_mapping(ctx, R, expected, label, wit, absent=(), optional=()):
    """the coherent-mapping laws against an expected key set; `optional` keys (files whose extension is a supported one in
    another letter case: whether they are listed is the file system's business) may be yielded or not, but a yielded one
    must be a full key and one that is not yielded must be absent"""
    _state["in_use"] = True
    _state["writes"] = []
    try:
        try:
            keys = list(R)
        except Exception as e:
            ctx.violation("iteration-raises:%s" % type(e).__name__, "%s: iterating raised %s: %s" % (label, type(e).__name__, str(e)[:160]), **wit)
            return {}
        if len(set(keys)) != len(keys):
            ctx.violation("iteration-repeats-key:" + label.split(":")[0], "%s: iteration yields a key twice: %s" % (label, sorted(k for k in set(keys) if keys.count(k) > 1)[:4]), **wit)
        try:
            n = len(R)
            if n != len(set(keys)):
                ctx.violation("len-differs-from-keys:" + label.split(":")[0], "%s: len(R) = %d but iteration yields %d distinct key(s)" % (label, n, len(set(keys))), **wit)
        except Exception as e:
            ctx.violation("len-raises:%s" % type(e).__name__, "%s: len(R) raised %s" % (label, type(e).__name__), **wit)
        if optional:
            ctx.count("c20_optional_keys_listed", len(set(keys) & set(optional)))
            ctx.count("c20_optional_keys_not_listed", len(set(optional) - set(keys)))
            for k in optional:
                if k not in keys:
                    check_absent(ctx, R, k, label, wit, "case-variant-extension-not-listed")
        if expected is not None and (set(keys) - set(optional)) != set(expected):
            ctx.violation("key-set-wrong:" + label.split(":")[0], "%s: keys %s, expected %s (missing %s, unexpected %s)" % (
                label, sorted(keys)[:6], sorted(expected)[:6], sorted(set(expected) - set(keys))[:4], sorted(set(keys) - set(expected))[:4]), **wit)
        items = {}
        for k in keys:
            items[k] = check_item(ctx, R, k, label, wit)
        for k, why in absent:
            if k not in keys:
                check_absent(ctx, R, k, label, wit, why)
        for op, f in (("setitem", lambda: R.__setitem__("zz", 1)), ("delitem", lambda: R.__delitem__(keys[0] if keys else "zz"))):
            try:
                f()
                ctx.violation("registry-writable:" + op, "%s: %s succeeded on a registry" % (label, op), **wit)
            except (TypeError, AttributeError):
                pass
            except Exception as e:
                ctx.hist("write_attempt_error", type(e).__name__)
        if _state["writes"]:
            ctx.violation("registry-opens-file-for-writing", "%s: files opened for writing while the registry was in use: %s" % (label, _state["writes"][:3]), **wit)
        return items
    finally:
        _state["in_use"] = False


CASSETTE_LABELS = ("KanR", "CamR", "CmR", "KnR", "AmpR", "SmR", "SpecR")


def gb_text(rec):
    """the plasmid as a GenBank file; two files in three give the resistance cassette further /label qualifiers
    (a colour, a lab note) beside its name, as plasmid editors do"""
    import copy
    from Bio import SeqIO

    h = sum(map(ord, rec.id)) + len(rec)
    if h % 3:
        rec = copy.deepcopy(rec)
        for f in rec.features:
            labs = list(f.qualifiers.get("label", []))
            if any(x in CASSETTE_LABELS for x in labs):
                extra = ["color: #%06x" % (h * 7919 % 0xFFFFFF)] + (["lab marker %d" % h] if h % 2 else [])
                f.qualifiers["label"] = (extra[:1] + labs + extra[1:]) if h % 5 < 2 else (labs + extra)
                if h % 4 == 1:
                    # the cassette's name twice on the same feature (two annotation sources merged by an editor)
                    f.qualifiers["label"] = f.qualifiers["label"] + [x for x in labs if x in CASSETTE_LABELS][:1]
                break
    b = io.StringIO()
    SeqIO.write([rec], b, "genbank")
    return b.getvalue()


def typed_pool():
    """(base class, source registry name, [(key, record)]) for part families that FilesystemRegistry can characterise"""
    from moclo.kits import ytk, cidar, ecoflex

    out = []
    for rname, base in (("ytk", ytk.YTKPart), ("cidar", cidar.CIDARPart), ("ecoflex", ecoflex.EcoFlexPart)):
        # only plasmids that their part family can type (a few registry entries, e.g. CIDAR R0063_AB, are
        # not valid under any part class: a directory registry cannot hold them, they are outside the quantifier)
        recs = [(key, rec) for r, key, cls, rec in regs.items()
                if r == rname and issubclass(cls, base) and len(key) <= 14 and cls(rec).is_valid()]
        out.append((base, rname, recs))
    return out


_emb_cache = {}


def _emb(name):
    """one instance per embedded registry and worker (its items are parsed once)"""
    if name not in _emb_cache:
        _emb_cache[name] = regs.registries()[name]()
    return _emb_cache[name]


STEMS = ["{k}", "{k}.v2", "x-{k}", "{k}_copy", "a b {k}", "{k}.gb", "é{k}", "{k}-1.2.3", "{k}_1kb", "{k}_big", "{k}.", "{k}k", "gb{k}g",
         "{k} [reversed]", "{k}[12]", "{k}(copy)", "{k}!", "{k}#2"]
GOOD_EXT = ["gb", "gbk"]
BAD_EXT = ["gbff", "txt", "fasta", "GB", "gb.bak", "genbank"]


def execute(mat, ctx):
    import fs
    from moclo.registry import base as rb

    kind = mat["kind"]
    if kind == "embedded":
        R = regs.registries()[mat["reg"]]()
        import pkg_resources

        path = pkg_resources.resource_filename(R._module, R._file)
        with tarfile.open(path) as tar:
            members = [m.name for m in tar.getmembers()]
        ctx.count("evaluations")
        label = "embedded:" + mat["reg"]
        items = check_mapping(ctx, R, members, label, {"registry": mat["reg"]},
                              absent=[("nope", "unknown"), ("", "empty"), (members[0] + ".gb", "stem-plus-extension"), (members[0].lower() + "x", "unknown")])
        ctx.count("c20_embedded_registries")
        ctx.hist("embedded_items", mat["reg"], len(items))
        ctx.nontrivial(["embedded", mat["reg"], len(members)])
        ctx.sample({"kind": "embedded", "registry": mat["reg"], "keys": len(members), "first_keys": sorted(members)[:4]}, cap=5)
        return
    if kind == "embedded-after-aborted-load" and not mat.get("in_fresh_interpreter"):
        # must be the very first load of that archive in the process: run the scenario in a fresh interpreter and merge
        # what its monitors observed
        import json
        import subprocess
        from .. import core

        code = ("import sys, json; sys.path.insert(0, %r); from mon import boot, core; boot.boot(); from mon.props import C20; "
                "ctx = core.Ctx('C20'); C20.worker_init(ctx, 'quick'); ctx.current = %r; C20.execute(dict(%r, in_fresh_interpreter=True), ctx); "
                "print('RESULT' + json.dumps(ctx.dump(), default=str))" % (core.VERIF, mat, mat))
        env = dict(os.environ, PYTHONHASHSEED="0", PYTHONWARNINGS="ignore")
        p = subprocess.run([sys.executable, "-c", code], stdout=subprocess.PIPE, stderr=subprocess.PIPE, timeout=600, env=env)
        line = [l for l in p.stdout.decode().splitlines() if l.startswith("RESULT")]
        if p.returncode != 0 or not line:
            raise core.Inconclusive("fresh interpreter failed: " + p.stderr.decode()[-400:])
        d = json.loads(line[-1][6:])
        for k, v in d["counters"].items():
            ctx.counters[k] += v
        for v in d["violations"]:
            if len(ctx.violations) < ctx.MAX_VIOL:
                ctx.violations.append(v)
        for k, v in d["viol_by_mech"].items():
            ctx.viol_by_mech[k] += v
        for sgn in d["sigs"]:
            ctx.sigs.add(sgn)
        for smp in d["samples"]:
            ctx.sample(smp, cap=1)
        return
    if kind == "embedded-after-aborted-load":
        # a first access whose archive load is aborted by an exception (fault injected at the j-th record), then normal use:
        # the same instance and a new instance must both be complete mappings again
        import Bio.SeqIO
        import pkg_resources

        rng = gen.rng_for(mat["seed"], PROP, kind, mat["reg"], mat["n"])
        Rcls = regs.registries()[mat["reg"]]
        R = Rcls()
        path = pkg_resources.resource_filename(R._module, R._file)
        with tarfile.open(path) as tar:
            members = [m.name for m in tar.getmembers()]
        # (every other scenario fails at the very first record read: an implementation that parses one member per lookup
        # can only be interrupted there)
        stop = 0 if mat["n"] % 2 == 0 else rng.randrange(len(members))
        ctx.count("c20_aborted_load_scenarios")
        orig = Bio.SeqIO.read
        state = {"n": 0}

        class InjectedLoadFault(Exception):
            pass

        def failing(*a, **kw):
            state["n"] += 1
            if state["n"] > stop:
                raise InjectedLoadFault("injected at record %d" % stop)
            return orig(*a, **kw)

        Bio.SeqIO.read = failing
        try:
            try:
                R[members[-1]]
            except InjectedLoadFault:
                ctx.count("c20_aborted_loads")
            except Exception as e:
                ctx.hist("aborted_load_other_exception", type(e).__name__)
        finally:
            Bio.SeqIO.read = orig
        ctx.count("evaluations")
        for label, reg in (("embedded-same-instance-after-aborted-load:" + mat["reg"], R), ("embedded-new-instance-after-aborted-load:" + mat["reg"], Rcls())):
            check_mapping(ctx, reg, members, label.replace("embedded-", "embedded:", 1) if False else label, {"registry": mat["reg"], "load_aborted_at_record": stop})
        ctx.nontrivial(["aborted", mat["reg"], stop])
        ctx.sample({"kind": kind, "registry": mat["reg"], "load_aborted_at_record": stop, "records": len(members)}, cap=1)
        return
    rng = gen.rng_for(mat["seed"], PROP, kind, mat["i"])
    pool = typed_pool()
    if kind == "directory":
        pbase, rname, recs = pool[mat["i"] % len(pool)]
        tmp = None
        if mat["fs"] == "mem":
            F = fs.open_fs("mem://")
        else:
            tmp = tempfile.mkdtemp(prefix="verif-c20-")
            F = fs.open_fs(tmp)
        try:
            exts = GOOD_EXT
            kw = {}
            if rng.random() < 0.25:
                exts = rng.choice([["gb"], ["genbank", "gb"], ["txt"], ["gbk", "gbff"]])
                kw["extensions"] = tuple(exts)
            expect = {}
            absent = [("nope", "unknown")]
            chosen = rng.sample(recs, min(len(recs), rng.randint(0, 12)))
            used = set()
            for key, rec in chosen:
                stem = rng.choice(STEMS).format(k=key)
                if stem in used:
                    continue
                used.add(stem)
                ext = rng.choice(exts + exts + [e for e in GOOD_EXT + BAD_EXT if e not in exts][:3])
                with F.open("%s.%s" % (stem, ext), "w") as f:
                    f.write(gb_text(rec))
                if ext in exts:
                    expect[stem] = rec
                else:
                    absent.append((stem, "unsupported-extension"))
            # plasmids exported under a supported extension in another letter case (`.GB`, `.Gbk`): whether such a file is listed is
            # up to the file system (pyfilesystem matches wildcards case-insensitively where the file system says so), so its stem
            # is an *optional* key - but the registry must be coherent about it either way
            rcase = gen.rng_for(mat["seed"], PROP, kind, "case-variant", mat["i"])
            optional = {}
            if rcase.random() < 0.4:
                for key, rec in rcase.sample(recs, min(len(recs), rcase.randint(1, 2))):
                    stem = key + rcase.choice(["_UC", "-export", ""])
                    if stem in used:
                        continue
                    used.add(stem)
                    e = rcase.choice(exts)
                    variant = rcase.choice([e.upper(), e.capitalize(), e[:-1] + e[-1].upper()])
                    if variant in exts:
                        continue
                    with F.open("%s.%s" % (stem, variant), "w") as f:
                        f.write(gb_text(rec))
                    optional[stem] = rec
                    ctx.count("c20_files_with_case_variant_extension")
            # a sub-directory whose name is a present stem + a supported extension that is tried *before* the file's own
            for stem in list(expect):
                ext_of = [e for e in exts if F.isfile("%s.%s" % (stem, e))]
                if ext_of and exts.index(ext_of[0]) > 0 and not F.exists("%s.%s" % (stem, exts[0])):
                    F.makedir("%s.%s" % (stem, exts[0]))
                    ctx.count("c20_directories_shadowing_a_stem")
                    break
            F.makedir("sub")
            with F.open("sub/inner.gb", "w") as f:
                f.write(gb_text(recs[0][1]))
            F.makedir("dir.gb")
            with F.open("dir.gb/deep.gb", "w") as f:
                f.write(gb_text(recs[1][1]))
            with F.open("README.md", "w") as f:
                f.write("hello")
            with F.open("notes", "w") as f:
                f.write("no extension")
            for stem in list(expect)[:3]:
                # keys that only differ from a real stem by a wildcard metacharacter must not find it
                absent += [(stem[:-1] + "?", "wildcard-key"), (stem[:2] + "*", "wildcard-key"), ("[" + stem[0] + "]" + stem[1:], "wildcard-key")]
            for stem in list(expect)[:3]:
                # other path spellings of a present stem are not keys either (iteration never yields them)
                absent += [("/" + stem, "path-spelling-of-a-stem"), ("//" + stem, "path-spelling-of-a-stem"), ("./" + stem, "path-spelling-of-a-stem"),
                           (stem + "/", "path-spelling-of-a-stem"), ("sub/../" + stem, "path-spelling-of-a-stem")]
            for stem in list(expect)[:4]:
                # the *file name* of a present plasmid is not a key (iteration yields stems), whatever extension is appended
                for e in exts:
                    fn = "%s.%s" % (stem, e)
                    if fn not in expect and fn not in optional:
                        absent.append((fn, "file-name-of-a-present-stem"))
            absent += [("*", "wildcard-key"), ("?" * 7, "wildcard-key")]
            absent += [("sub", "sub-directory"), ("dir", "sub-directory"), ("dir.gb", "sub-directory"), ("README", "junk-file"), ("notes", "junk-file"),
                       ("inner", "file-in-sub-directory"), ("sub/inner", "path-into-sub-directory"), ("dir.gb/deep", "path-into-sub-directory"),
                       ("../outside", "parent-reference"), ("/sub/inner", "path-into-sub-directory")]
            R = rb.FilesystemRegistry(F, pbase, **kw)
            ctx.count("evaluations")
            ctx.count("c20_directories")
            wit = {"fs": mat["fs"], "files": sorted(F.listdir("/")), "extensions": list(exts), "base": pbase.__name__}
            label = "directory:" + mat["fs"]
            items = check_mapping(ctx, R, list(expect), label, wit, absent=absent, optional=list(optional))
            expect = dict(optional, **expect)
            for stem, it in items.items():
                if it is not None and stem in expect and str(it.entity.record.seq) != str(expect[stem].seq):
                    ctx.violation("directory-item-wrong-plasmid", "%s: R[%r] holds another plasmid's sequence" % (label, stem), key=stem, **wit)
            if expect:
                ctx.nontrivial(["dir", sorted(expect), list(exts)])
            ctx.sample({"kind": "directory", "fs": mat["fs"], "files": wit["files"][:8], "extensions": list(exts), "expected_keys": sorted(expect)[:6]}, cap=2)
        finally:
            F.close()
            if tmp:
                shutil.rmtree(tmp, ignore_errors=True)
        return
    # combined registries against a dict model
    embedded = regs.registries()
    members = []
    truth = {}        # id(registry) -> {key: sequence text the harness wrote}, for the directory members
    alive = []        # every registry object made here stays referenced: an id() must not be handed to a later object
    model = {}
    descr = []
    F_keep = []
    for j in range(rng.randint(1, 5)):
        if rng.random() < 0.5:
            name = rng.choice(["ytk", "ptk", "cidar", "ecoflex", "plant"])
            R = _emb(name)
            descr.append(name)
        else:
            # a directory whose stems collide with embedded ids but hold *other* plasmids
            pbase, rname, recs = pool[rng.randrange(len(pool))]
            F = fs.open_fs("mem://")
            F_keep.append(F)
            wrote = {}
            for key, rec in rng.sample(recs, min(len(recs), 4)):
                other = rng.choice(recs)[1]
                with F.open("%s.gb" % key, "w") as f:
                    f.write(gb_text(other))
                wrote[key] = str(other.seq)
            R = rb.FilesystemRegistry(F, pbase)
            truth[id(R)] = wrote
            alive.append(R)
            descr.append("dir(%s)" % rname)
            rtw = gen.rng_for(mat["seed"], PROP, kind, "twin-directory", mat["i"], j)
            if rtw.random() < 0.35:
                # a second directory of the same kind with the same file names holding other plasmids (two freezer boxes
                # catalogued alike): it is added right after the first one, which must win - and each stays what it is
                F2 = fs.open_fs("mem://")
                F_keep.append(F2)
                wrote2 = {}
                for key in wrote:
                    other = rtw.choice([r for r in recs if str(r[1].seq) != wrote[key]])[1]
                    with F2.open("%s.gb" % key, "w") as f:
                        f.write(gb_text(other))
                    wrote2[key] = str(other.seq)
                R2 = rb.FilesystemRegistry(F2, pbase)
                truth[id(R2)] = wrote2
                alive.append(R2)
                members.append(R)
                descr.append("twin-dir(%s)" % rname)
                R = R2
                ctx.count("c20_twin_directories")
        if rng.random() < 0.35:
            # a member that is itself a combination (possibly of several registries)
            inner = rb.CombinedRegistry()
            alive.append(inner)
            inner << R
            if id(R) in truth:
                truth[id(inner)] = truth[id(R)]      # its keys were added first: they win inside the inner combination
            if rng.random() < 0.5:
                extra = rng.choice(["ytk", "ptk", "cidar", "ecoflex", "plant"])
                inner << _emb(extra)
                descr[-1] = "combined(%s,%s)" % (descr[-1], extra)
            else:
                descr[-1] = "combined(%s)" % descr[-1]
            R = inner
        members.append(R)
    C = rb.CombinedRegistry()
    member_keys = []

    def add(R):
        if len(member_keys) % 2 == 1:
            # the combination is consulted between two additions (every kind of read access)
            ctx.count("c20_reads_between_additions")
            len(C), sorted(C), ("nope" in C), C.get("nope")
            for k in list(model)[:2]:
                C[k]
        if rng.random() < 0.5:
            C << R
        else:
            C.add_registry(R)
        member_keys.append(set(R))
        known = truth.get(id(R), {})
        for k in member_keys[-1]:
            got = str(R[k].entity.record.seq)
            if k in known:
                # what a directory member holds is what the harness wrote into that directory, not what any other holds
                ctx.count("c20_directory_members_checked_against_written_files")
                if got != known[k]:
                    ctx.violation("directory-item-wrong-plasmid", "a directory registry returns for %r a plasmid other than the one written to its file %r.gb" % (k, k), key=k, members=list(descr))
            if k not in model:
                model[k] = known.get(k, got)

    for R in members:
        add(R)
    # a member that grows after it was added, then is added again: the union is taken at the time of each addition
    if rng.random() < 0.5:
        grown = rb.CombinedRegistry()
        grown << _emb(rng.choice(["ptk", "plant"]))
        add(grown)
        grown << _emb(rng.choice(["ytk", "cidar", "ecoflex"]))
        add(grown)
        descr.append("combined-that-grew-and-was-added-again")
        ctx.count("c20_regrown_members")
    if rng.random() < 0.4:
        pbase, rname, recs = pool[rng.randrange(len(pool))]
        F = fs.open_fs("mem://")
        F_keep.append(F)
        two = rng.sample(recs, 2)
        with F.open("grow_%s.gb" % two[0][0], "w") as f:
            f.write(gb_text(two[0][1]))
        D = rb.FilesystemRegistry(F, pbase)
        add(D)
        with F.open("grow_%s.gb" % two[1][0], "w") as f:
            f.write(gb_text(two[1][1]))
        add(D)
        descr.append("directory-that-grew-and-was-added-again")
        ctx.count("c20_regrown_members")
    ctx.count("evaluations")
    ctx.count("c20_combinations")
    wit = {"members": descr}
    items = check_mapping(ctx, C, list(model), "combined", wit, absent=[("nope", "unknown")])
    # a member is still the registry it was before it was combined with others: keys that only other members hold are absent from it
    for R, own in zip(members, member_keys):
        foreign = [k for k in model if k not in own][:4]
        for k in foreign:
            ctx.count("c20_members_rechecked_after_combination")
            check_absent(ctx, R, k, "member-after-combination", wit, "key-of-another-member")
    shared = 0
    for k, it in items.items():
        if it is None:
            continue
        holders = [i for i, ks in enumerate(member_keys) if k in ks]
        if len(holders) > 1:
            shared += 1
        if str(it.entity.record.seq) != model[k]:
            ctx.violation("combined-shared-id-not-first-added", "combined %s: id %r is held by members %s but the item found is not the first-added one" % (descr, k, holders), key=k, **wit)
    if shared:
        ctx.count("c20_shared_id_checks", shared)
        ctx.nontrivial(["combined", descr])
    ctx.sample({"kind": "combined", "members": descr, "keys": len(model), "shared_ids": shared}, cap=2)
    for F in F_keep:
        F.close()

"""C11 - Products of one level are valid modules of the next level."""
import warnings

from .. import gen, refmodel, rxmodel
from ..util import rc, rot_left, occurrences

PROP = "C11"
LEVEL = "exploration"
DESIGN_REF = "DESIGN.md section 4, C11"
TECHNIQUE = "runtime monitor at the driver boundary: real assemble() products of every kit vector type typed by the kit's next-level class at hostile rotations and re-assembled at the next level; site counts by an independent string model"
LEVEL_TEXT = ("For each (vector class, module class, next-level class) triple of the kits, vectors are instantiated from the class's own "
              "structure text with site-free filler, complete chains of 1..4 inserts are assembled with the real code, and - whenever the "
              "string model finds exactly the two next-level sites the design provides in the product - the next-level class must accept "
              "the product at every rotation tried, its target must contain the whole insert, and the product must assemble again into a "
              "next-level vector with matching overhangs. Two-level compositions (entries -> cassettes -> device) for CIDAR and EcoFlex.")
LEVEL_NOTE = "trusts mon/refmodel.py for counting sites and reading next-level overhangs; discarded cases (a junction accidentally creating a site) are counted"
RULE = ("triples: CIDAR entry/cassette/device vectors, EcoFlex cassette/device vectors, original-MoClo entry/cassette vectors with their "
        "kits' product/entry/cassette modules and entry/cassette/device next-level classes, and the YTK entry vector (generated BsmBI "
        "vectors with overhangs taken from the product / GACC) with YTKProduct -> YTKEntry; vectors = random instances of the vector "
        "structure with filler free of both enzymes' sites and exactly two sites of each enzyme; chains of 1..4 inserts of 2..40 nt free "
        "of both enzymes' sites; product typed at all rotations that put the origin inside the next-level flanks plus 4 random ones. "
        "Non-trivial = product has exactly the two next-level sites and was typed at >= 10 rotations; distinct = distinct (triple, vector, inserts)."
        " Second session: every typed product is also assembled into the kit's own next vector class instantiated with the two overhangs the product needs (devices into cassette-vector layouts).")
ASSUMPTIONS = ["inserts are at least two nucleotides long and contain no site of either level's enzyme",
               "for YTK the 'insert' is the template between the type-specific overhangs embedded in the product"]
FLOORS = {"c11_vectors_with_next_level_site_in_placeholder": 40, "c11_products_typed": 400, "c11_rotations_typed": 6000, "c11_reassembled": 300, "c11_reassembled_in_kit_vector": 150, "c11_two_level": 20, "c11_triples_seen": 8}
MUST_REACH = ["AbstractVector.assemble"]
BUDGET_S = {"quick": 900, "thorough": 7200}


# Lee et al. 2015, supplementary figure S19: BsmBI site, N, product overhang ..GG, then TCTC (completing a BsaI site), N, the type-specific
# overhang, the template (any length; the property asks for >= 2 nt), the other type-specific overhang, N, GA + GACC + N + the reverse BsmBI site
YTK_PRODUCT_LAYOUT = "CGTCTCN(NNGG)(TCTCNNNNNN*?NNNNNGA)(GACC)NGAGACG"


def triples():
    from moclo.kits import ytk, cidar, ecoflex, moclo as mk

    return [
        ("cidar-entry", cidar.CIDAREntryVector, cidar.CIDARProduct, cidar.CIDAREntry),
        ("cidar-cassette", cidar.CIDARCassetteVector, cidar.CIDAREntry, cidar.CIDARCassette),
        ("cidar-device", cidar.CIDARDeviceVector, cidar.CIDARCassette, cidar.CIDARDevice),
        ("ecoflex-cassette", ecoflex.EcoFlexCassetteVector, ecoflex.EcoFlexEntry, ecoflex.EcoFlexCassette),
        ("ecoflex-device", ecoflex.EcoFlexDeviceVector, ecoflex.EcoFlexCassette, ecoflex.EcoFlexDevice),
        ("moclo-entry", mk.MoCloEntryVector, mk.MoCloProduct, mk.MoCloEntry),
        ("moclo-cassette", mk.MoCloCassetteVector, mk.MoCloEntry, mk.MoCloCassette),
        ("ytk-entry", ytk.YTKEntryVector, ytk.YTKProduct, ytk.YTKEntry),
    ]


def cases(tier, seed):
    per = 60 if tier == "quick" else 12000
    out = []
    for name, _, _, _ in triples():
        for j in range(0, per, 10):
            out.append({"kind": "triple", "triple": name, "from": j, "count": 10, "seed": seed})
    for j in range(0, 40 if tier == "quick" else 8000, 5):
        out.append({"kind": "two-level", "kit": ["cidar", "ecoflex"][(j // 5) % 2], "from": j, "count": 5, "seed": seed})
    return out


def materialise(case):
    return case


def worker_init(ctx, tier):
    pass


def nsites(s, enz, circular=True):
    return refmodel.count_sites(s, enz.site, circular)


def sitefree(rng, n, enzs):
    for _ in range(1000):
        s = gen.rand_dna(rng, n)
        if not any(nsites(s, e, False) for e in enzs):
            return s
    raise RuntimeError("cannot draw site-free filler")


# the vector layouts of the kits as published (and as the classes spell them at the pinned commit): the vectors of the workload are
# instances of these, not of whatever the class says today; the dropout between the two inner sites may have any length, zero included
VECTOR_LAYOUTS = {
    "CIDAREntryVector": "GGTCTCN(NNNN)(NNGTCTTCN*GAAGACNN)(NNNN)NGAGACC",
    "CIDARCassetteVector": "GAAGACNN(NNNN)(NGAGACCN*GGTCTCN)(NNNN)NNGTCTTC",
    "CIDARDeviceVector": "GGTCTCN(NNNN)(NNGTCTTCN*GAAGACNN)(NNNN)NGAGACC",
    "EcoFlexCassetteVector": "CGTCTCNNNNN(NNNN)(NGAGACCN*?GGTCTCN)(NNNN)NNNNNGAGACG",
    "EcoFlexDeviceVector": "GGTCTCNNNNN(NNNN)(NGAGACGN*CGTCTCN)(NNNN)NNNNNGAGACC",
    "MoCloEntryVector": "GGTCTCN(NNNN)(NNGTCTTCN*GAAGACNN)(NNNN)NGAGACC",
    "MoCloCassetteVector": "GAAGACNNNNNN(NNNN)(NGAGACCN*GGTCTCN)(NNNN)NNNNNNGTCTTC",
}


def make_vector(rng, Vc, enzs, groups=None):
    free = lambda t: not any(nsites(t, e, False) for e in enzs)
    layout = VECTOR_LAYOUTS[Vc.__name__]
    for _ in range(300):
        sv = gen.instance(rng, layout, run_max=0 if rng.random() < 0.12 else 25, groups=groups, run_filter=free) + sitefree(rng, rng.randint(2, 20), enzs)
        if all(nsites(sv, e) == 2 for e in set(enzs)) or (len(set(enzs)) == 1 and nsites(sv, enzs[0]) == 2):
            return sv
    return None


def site_in_placeholder(rng, sv, enz, nenz):
    """insert a next-level recognition site into the placeholder (the stretch between the vector's own two sites,
    which the assembly discards): legitimate, the product still carries only the two designed sites"""
    s = sv.upper()
    rev = occurrences(s, rc(enz.site))
    fwd = occurrences(s, enz.site)
    if len(rev) != 1 or len(fwd) != 1:
        return None
    a, b = rev[0] + len(enz.site), fwd[0]
    if b - a < 2:
        return None
    i = rng.randint(a + 1, b - 1)
    out = sv[:i] + rng.choice([nenz.site, rc(nenz.site)]) + sv[i:]
    if nsites(out, enz) != 2:
        return None
    return out


def rec(text, rid):
    from Bio.Seq import Seq
    from moclo.record import CircularRecord

    # record-wide annotations of any usual shape (decided by the text)
    return CircularRecord(Seq(text), id=rid, name=rid, annotations=gen.annotation_variety("c11", rid, text[:24], len(text)))


def assemble(vent, ments):
    with warnings.catch_warnings():
        warnings.simplefilter("ignore")
        return vent.assemble(*ments)


def type_product(ctx, Nc, ptext, insert_text, label, wit, rng):
    """next-level class must accept the product at every rotation tried; target must contain the insert"""
    n = len(ptext)
    nenz = Nc.cutter
    anchors = occurrences(ptext, nenz.site) + [a + len(nenz.site) for a in occurrences(ptext, rc(nenz.site))]
    ks = {0}
    for a in anchors:
        for d in range(-12, 13):
            ks.add((a + d) % n)
    for _ in range(4):
        ks.add(rng.randrange(n))
    ctx.count("c11_products_typed")
    bad = False
    for k in sorted(ks):
        ctx.count("c11_rotations_typed")
        ctx.count("evaluations")
        ent = Nc(rec(rot_left(ptext, k), "prod"))
        try:
            ok = ent.is_valid()
        except Exception as e:
            ok = "raised " + type(e).__name__
        if ok is not True:
            if not bad:
                ctx.violation("next-level-rejects-product:" + label, "%s: the product of a complete assembly (exactly two %s sites) is %s by %s when rotated left by %d" % (
                    label, nenz, "rejected" if ok is False else ok, Nc.__name__, k), rotation=k, **wit)
            bad = True
            continue
        tgt = str(ent.target_sequence().seq).upper()
        if insert_text.upper() not in tgt:
            if not bad:
                ctx.violation("next-level-target-misses-insert:" + label, "%s: target of %s (%d nt) does not contain the insert (%d nt) at rotation %d" % (
                    label, Nc.__name__, len(tgt), len(insert_text), k), rotation=k, target=tgt[:300], insert=insert_text[:300], **wit)
            bad = True
    return not bad


def reassemble(ctx, Nc, ptext, label, wit, rng):
    """the product can itself be assembled at the next level: into a generated vector with matching overhangs"""
    geom = refmodel.geometry(Nc.cutter)
    fr = refmodel.module_fragment(ptext.upper(), geom)
    if fr is None or fr[2] == fr[3] or fr[2] == rc(fr[2]):
        ctx.count("reassembly_skipped_overhangs")
        return
    V, _ = gen.generic_classes(str(Nc.cutter))
    try:
        v = gen.build_vector(rng, geom, o_start=fr[3], o_end=fr[2], plen=rng.randint(0, 10), blen=rng.randint(2, 20))
    except RuntimeError:
        ctx.count("reassembly_skipped_unbuildable")
        return
    ctx.count("c11_reassembled")
    ctx.count("evaluations")
    try:
        p2 = assemble(V(rec(v["seq"], "nextvec")), [Nc(rec(rot_left(ptext, rng.randrange(len(ptext))), "prod"))])
    except Exception as e:
        ctx.violation("product-cannot-be-reassembled:" + label, "%s: assembling the product as a %s into a next-level vector raised %s: %s" % (
            label, Nc.__name__, type(e).__name__, str(e)[:160]), **wit)
        return
    want = refmodel.ligate(v["seq"], [ptext.upper()], geom)
    from ..util import same_circle
    if not same_circle(str(p2.seq), want):
        ctx.violation("reassembled-product-wrong:" + label, "%s: second-level product is not vector fragment + product fragment" % label, **wit)


def kit_next_vector(name):
    """the kit's own vector class a product of this triple goes into next.  In CIDAR and EcoFlex the levels alternate: a
    device is cut out with the entry-level enzyme and goes into a plasmid of the *cassette vector* layout (CIDAR DVK, EcoFlex pTU3)"""
    from moclo.kits import ytk, cidar, ecoflex, moclo as mk

    return {"cidar-entry": cidar.CIDARCassetteVector, "cidar-cassette": cidar.CIDARDeviceVector, "cidar-device": cidar.CIDARCassetteVector,
            "ecoflex-cassette": ecoflex.EcoFlexDeviceVector, "ecoflex-device": ecoflex.EcoFlexCassetteVector,
            "moclo-entry": mk.MoCloCassetteVector, "ytk-entry": ytk.YTKCassetteVector}.get(name)


def reassemble_in_kit_vector(ctx, name, Nc, ptext, wit, rng):
    """... and into the kit's own next vector class, instantiated from that class's structure with the two overhangs the
    product needs (they are free letters in every kit vector structure)"""
    KV = kit_next_vector(name)
    if KV is None or KV.cutter.site != Nc.cutter.site:
        return
    geom = refmodel.geometry(Nc.cutter)
    fr = refmodel.module_fragment(ptext.upper(), geom)
    k = geom[2]
    if fr is None or fr[2] == fr[3] or fr[2] == rc(fr[2]):
        return
    for _ in range(20):
        # any instance of the class's structure, then the two overhangs (free letters in every kit vector structure) are
        # overwritten where the string model finds them - independent of how the structure text spells its groups
        vtext = gen.instance(rng, KV.structure(), run_max=15) + gen.rand_dna(rng, rng.randint(2, 20))
        vf = refmodel.vector_fragment(vtext.upper(), geom)
        if nsites(vtext, Nc.cutter) != 2 or vf is None:
            continue
        n = len(vtext)
        t = list(vtext)
        for at, letters in ((vf[0], fr[3]), ((vf[0] + len(vf[1])) % n, fr[2])):
            for j, c in enumerate(letters):
                t[(at + j) % n] = c
        vtext = "".join(t)
        vf = refmodel.vector_fragment(vtext.upper(), geom)
        if nsites(vtext, Nc.cutter) == 2 and vf is not None and vf[2] == fr[3] and vf[3] == fr[2]:
            break
    else:
        ctx.count("kit_vector_reassembly_skipped_unbuildable")
        return
    ctx.count("c11_reassembled_in_kit_vector")
    ctx.hist("c11_kit_next_vector", "%s->%s" % (name, KV.__name__))
    ctx.count("evaluations")
    vtext = rot_left(vtext, rng.randrange(len(vtext)))
    try:
        p2 = assemble(KV(rec(vtext, "kitnextvec")), [Nc(rec(rot_left(ptext, rng.randrange(len(ptext))), "prod"))])
    except Exception as e:
        ctx.violation("product-cannot-be-reassembled-in-kit-vector:" + name, "%s: assembling the product as a %s into a %s raised %s: %s" % (
            name, Nc.__name__, KV.__name__, type(e).__name__, str(e)[:160]), next_vector=vtext, **wit)
        return
    want = refmodel.ligate(vtext.upper(), [ptext.upper()], geom)
    from ..util import same_circle
    if want is not None and not same_circle(str(p2.seq).upper(), want):
        ctx.violation("reassembled-product-wrong:kit-vector:" + name, "%s: product in %s is not vector fragment + product fragment" % (name, KV.__name__), next_vector=vtext, **wit)


def one_triple(ctx, name, Vc, Mc, Nc, rng, inputs_only=False):
    """`inputs_only`: stop after building the vector and insert plasmids and return (vector text, [module texts]) - used by
    other checks as a generator of well-formed kit-class assemblies"""
    enz, nenz = Vc.cutter, Nc.cutter
    geom = refmodel.geometry(enz)
    site, n_, k = geom
    if name == "ytk-entry":
        # module first: the vector's overhangs follow from the product
        tiny = rng.randrange(4) == 0        # the smallest template the property admits (2 nt), one case in four
        for _ in range(200):
            # (instances of the published layout, written down in YTK_PRODUCT_LAYOUT - not of whatever the class says today)
            ms = gen.instance(rng, YTK_PRODUCT_LAYOUT, run_max=2 if tiny else 30, run_min=2, run_filter=lambda t: not nsites(t, enz, False) and not nsites(t, nenz, False)) + sitefree(rng, rng.randint(0, 12), [enz, nenz])
            if nsites(ms, enz) == 2:
                break
        else:
            ctx.count("skipped_cannot_build")
            return
        fr = refmodel.module_fragment(ms.upper(), geom)
        if fr is None or fr[2] == fr[3] or fr[2] == rc(fr[2]) or fr[3] == rc(fr[3]):
            ctx.count("skipped_overhangs")
            return
        try:
            v = gen.build_vector(rng, geom, o_start=fr[3], o_end=fr[2], plen=rng.randint(0, 15), blen=rng.randint(2, 25), extra_forbid=(nenz.site,))
        except RuntimeError:
            ctx.count("skipped_cannot_build")
            return
        sv = v["seq"]
        if rng.random() < 0.4:
            alt = site_in_placeholder(rng, sv, enz, nenz)
            if alt is not None:
                sv = alt
                ctx.count("c11_vectors_with_next_level_site_in_placeholder")
        mods = [ms]
        # template = between the type-specific overhangs:  TCTC N oooo <template> oooo N GA
        body = fr[1][k:]
        insert = body[4 + 1 + 4: len(body) - (4 + 1 + 2)]
        if len(insert) < 2:
            ctx.count("skipped_short_template")
            return
    else:
        sv = make_vector(rng, Vc, [enz, nenz])
        if sv is None:
            ctx.count("skipped_cannot_build")
            return
        if enz.site != nenz.site and rng.random() < 0.4:
            alt = site_in_placeholder(rng, sv, enz, nenz)
            if alt is not None:
                sv = alt
                ctx.count("c11_vectors_with_next_level_site_in_placeholder")
        fr = refmodel.vector_fragment(sv.upper(), geom)
        if fr is None:
            ctx.count("skipped_cannot_build")
            return
        o_start, o_end = fr[2], fr[3]
        if o_start == o_end:
            ctx.count("skipped_overhangs")
            return
        nm = rng.randint(1, 4)
        for _ in range(200):
            mids = [gen.rand_dna(rng, k) for _ in range(nm - 1)]
            ov = [o_end] + mids + [o_start]
            st = ov[:-1]
            if len(set(ov)) == len(ov) and not any(rc(a) in st for a in st) and not any(a == rc(a) for a in st):
                break
        else:
            ctx.count("skipped_overhangs")
            return
        mods, parts = [], []
        for i in range(nm):
            for _ in range(300):
                t = sitefree(rng, rng.randint(2, 40), [enz, nenz])
                sm = site + gen.rand_dna(rng, n_) + ov[i] + t + ov[i + 1] + gen.rand_dna(rng, n_) + rc(site) + sitefree(rng, rng.randint(0, 12), [enz])
                if nsites(sm, enz) == 2 and not nsites(ov[i] + t + ov[i + 1], nenz, False):
                    break
            else:
                ctx.count("skipped_cannot_build")
                return
            mods.append(sm)
            parts.append(ov[i] + t)
        insert = "".join(parts)
    if inputs_only:
        return sv, mods
    # own stream: an unresolved base call (any IUPAC code) in the vector's backbone, far from every site: it travels into the
    # product, which the next level must still accept
    rd = gen.rng_for("c11-degenerate", name, sv[:24], len(sv))
    if rd.random() < 0.25:
        try:
            cand = sv + sitefree(rd, 9, [enz, nenz]) + rd.choice("RYKMSWBDHVNrn") + sitefree(rd, 9, [enz, nenz])
            # (the junction with the old end of the plasmid must not bring a site to life)
            if all(nsites(cand.upper(), e) == nsites(sv.upper(), e) for e in {enz, nenz}):
                sv = cand
                ctx.count("c11_vectors_with_degenerate_base")
        except RuntimeError:
            pass
    wit = dict(triple=name, vector=sv, modules=mods)
    x = rng.randrange(len(sv))
    if x % 2 == 0:
        # hostile origin: on the first / last base of one of the vector's own sites, or just next to it
        anchors = [a + d for st in (enz.site, rc(enz.site)) for a in occurrences(sv.upper(), st) for d in (0, 1, len(st) - 1, len(st), -1)]
        if anchors:
            x = anchors[(x // 2) % len(anchors)] % len(sv)
    # own stream: one of the plasmids comes from a tool that writes lower case (the vector, or every insert)
    rcase = gen.rng_for("c11-case", name, sv[:24], len(sv)).random()
    vcase = (lambda t: t.lower()) if rcase < 0.12 else (lambda t: t)
    mcase = (lambda t: t.lower()) if 0.12 <= rcase < 0.24 else (lambda t: t)
    if rcase < 0.24:
        ctx.count("c11_mixed_spelling_assemblies")
    vent = Vc(rec(vcase(rot_left(sv, x)), "vec"))
    try:
        if not vent.is_valid():
            ctx.violation("vector-instance-rejected:" + name, "%s rejects an instance of its own structure with exactly two sites of each enzyme" % Vc.__name__, **wit)
            return
        order = list(range(len(mods)))
        rng.shuffle(order)
        prod = assemble(vent, [Mc(rec(mcase(rot_left(mods[i], rng.randrange(len(mods[i])))), "m%d" % i)) for i in order])
    except Exception as e:
        ctx.violation("level-assembly-raises:%s:%s" % (name, type(e).__name__), "%s: complete chain of %d insert(s) raised %s: %s" % (
            name, len(mods), type(e).__name__, str(e)[:160]), **wit)
        return
    ptext = str(prod.seq).upper()
    if nsites(ptext, nenz) != 2:
        ctx.count("discarded_junction_created_site")
        return
    ctx.hist("c11_triple", name)
    ok = type_product(ctx, Nc, ptext, insert, name, wit, rng)
    if ok:
        reassemble(ctx, Nc, ptext, name, wit, rng)
        reassemble_in_kit_vector(ctx, name, Nc, ptext, wit, gen.rng_for("c11-kit-next-vector", name, ptext[:40], len(ptext)))
    ctx.nontrivial([name, sv, mods])
    ctx.sample({"triple": name, "vector_class": Vc.__name__, "next_level": Nc.__name__, "inserts": len(mods), "product_length": len(ptext)}, cap=2)
    return ptext


def two_level(ctx, kit, rng):
    from moclo.kits import cidar, ecoflex

    if kit == "cidar":
        V1, M1, N1, V2, N2 = cidar.CIDARCassetteVector, cidar.CIDAREntry, cidar.CIDARCassette, cidar.CIDARDeviceVector, cidar.CIDARDevice
        ncass = 2
    else:
        V1, M1, N1, V2, N2 = ecoflex.EcoFlexCassetteVector, ecoflex.EcoFlexEntry, ecoflex.EcoFlexCassette, ecoflex.EcoFlexDeviceVector, ecoflex.EcoFlexDevice
        ncass = 1
    e1, e2 = V1.cutter, V2.cutter
    g2 = refmodel.geometry(e2)
    k2 = g2[2]
    chain = gen.gen_overhangs(rng, k2, ncass + 1, forbid=(e1.site, rc(e1.site), e2.site, rc(e2.site)))
    cassettes = []
    for j in range(ncass):
        name = "two-level-%s-cassette" % kit
        groups = {1: chain[j], 3: chain[j + 1]} if kit == "cidar" else None
        # CIDAR: the level-2 fusion sites are the cassette vector's own overhang groups; EcoFlex: read them off afterwards
        for attempt in range(30):
            sv = make_vector(rng, V1, [e1, e2], groups=groups)
            if sv is None:
                continue
            fr = refmodel.vector_fragment(sv.upper(), refmodel.geometry(e1))
            if fr is None or fr[2] == fr[3]:
                continue
            t = sitefree(rng, rng.randint(2, 30), [e1, e2])
            s1, n1, k1 = refmodel.geometry(e1)
            sm = s1 + gen.rand_dna(rng, n1) + fr[3] + t + fr[2] + gen.rand_dna(rng, n1) + rc(s1) + sitefree(rng, 8, [e1, e2])
            if nsites(sm, e1) != 2 or nsites(sm, e2):
                continue
            try:
                # the entry is an annotated GenBank-like record: a feature inside the insert cites one of its references
                ti = sm.index(t, len(s1) + n1)
                espec = {"id": "entry%d" % j, "seq": sm,
                         "refs": [{"title": "Paper %d" % x, "authors": "A", "journal": "J %d" % x} for x in range(2)],
                         "features": [{"type": "CDS", "parts": [[ti, ti + len(t), 1]], "quals": {"uid": ["entry%d.cds" % j], "citation": ["[2]"]}}]}
                erec = gen.make_record(espec) if j % 2 == 0 or kit == "ecoflex" else rec(sm, "entry%d" % j)
                if (len(sm) + j) % 2:
                    # the entry plasmid is stored with its origin inside the insert (rotated by the library)
                    erec = erec >> (len(sm) - (ti + max(1, len(t) // 2)))
                vent1, ment1 = V1(rec(sv, "cv%d" % j)), M1(erec)
                p = assemble(vent1, [ment1])   # default id/name: "assembly"
                # the same entry and vector objects serve a second transcription unit: the same call again must give the same plasmid
                p_again = assemble(vent1, [ment1])
                ctx.count("c11_same_objects_assembled_twice")
                if str(p_again.seq) != str(p.seq):
                    ctx.violation("second-use-of-the-same-parts-differs:" + name, "%s: assembling the same vector and entry objects a second time gives another sequence" % name, vector=sv, modules=[sm])
            except Exception as e:
                ctx.violation("level-assembly-raises:%s:%s" % (name, type(e).__name__), "%s: %s" % (name, str(e)[:160]), vector=sv, modules=[sm])
                return
            pt = str(p.seq).upper()
            if nsites(pt, e2) == 2 and nsites(pt, e1) == 0:
                cassettes.append((pt, t, p))
                break
        else:
            ctx.count("skipped_cannot_build")
            return
    frs = [refmodel.module_fragment(pt, g2) for pt, _, _ in cassettes]
    if any(f is None for f in frs):
        ctx.count("skipped_cannot_build")
        return
    o_end, o_start = frs[0][2], frs[-1][3]
    if o_end == o_start or any(f[2] == rc(f[2]) for f in frs):
        ctx.count("skipped_overhangs")
        return
    sv2 = make_vector(rng, V2, [e2, N2.cutter], groups={1: o_end, 3: o_start})
    if sv2 is None:
        ctx.count("skipped_cannot_build")
        return
    wit = dict(triple="two-level-" + kit, vector=sv2, modules=[pt for pt, _, _ in cassettes])
    try:
        # the products themselves, as returned by the first level (same default id for all), rotated by the library
        ents = [N1(p >> rng.randrange(len(p))) for _, _, p in cassettes]
        dev = assemble(V2(rec(sv2, "dv")), ents[::-1])
    except Exception as e:
        ctx.violation("level-assembly-raises:two-level-%s:%s" % (kit, type(e).__name__), "two-level %s: assembling cassette products into the device vector raised %s: %s" % (
            kit, type(e).__name__, str(e)[:160]), **wit)
        return
    dt = str(dev.seq).upper()
    ctx.count("c11_two_level")
    if nsites(dt, N2.cutter) != 2:
        ctx.count("discarded_junction_created_site")
        return
    insert = "".join(f[1] for f in frs)
    type_product(ctx, N2, dt, insert, "two-level-" + kit, wit, rng)
    for _, t, _ in cassettes:
        if t not in dt:
            ctx.violation("two-level-loses-entry-target", "two-level %s: an entry target is missing from the device product" % kit, **wit)
    ctx.nontrivial(["two-level", kit, sv2, [pt for pt, _, _ in cassettes]])
    ctx.sample({"two_level": kit, "cassettes": ncass, "device_length": len(dt)}, cap=1)


def execute(mat, ctx):
    if mat["kind"] == "triple":
        t = next(x for x in triples() if x[0] == mat["triple"])
        for j in range(mat["from"], mat["from"] + mat["count"]):
            rng = gen.rng_for(mat["seed"], PROP, mat["triple"], j)
            try:
                one_triple(ctx, *t, rng=rng)
            except RuntimeError as e:
                if "cannot" in str(e):
                    ctx.count("skipped_cannot_build")
                else:
                    raise
    else:
        for j in range(mat["from"], mat["from"] + mat["count"]):
            rng = gen.rng_for(mat["seed"], PROP, "two", mat["kit"], j)
            try:
                two_level(ctx, mat["kit"], rng)
            except RuntimeError as e:
                if "cannot" in str(e):
                    ctx.count("skipped_cannot_build")
                else:
                    raise


def finalize(agg, tier):
    agg["counters"]["c11_triples_seen"] = len(agg["hists"].get("c11_triple", {}))
    return {}

"""C15 - A circular record behaves as a circle, never as a line."""
import copy
import itertools

from .. import gen
from ..monitors import CircleMonitor
from ..util import rot_left
from . import _embedded

PROP = "C15"
LEVEL = "exploration"
DESIGN_REF = "DESIGN.md section 4, C15"
TECHNIQUE = "runtime monitor (post-conditions on CircularRecord.__contains__/__getitem__) + drivers for +, the constructor and copy isolation"
LEVEL_TEXT = ("Every membership test and slice of a CircularRecord performed by the workload (exhaustive over short binary "
              "records x all queries x all slice bounds, random DNA with origin-spanning queries, and the slices the library "
              "itself takes inside assemblies) is judged online against plain string semantics; drivers check that +, += and "
              "reflected + raise TypeError for every operand kind, that linear topology is refused in any letter case and that "
              "the wrapping constructor copies every mutable part. Held = no refuting observation.")
LEVEL_NOTE = "trusts CPython string slicing/search and Biopython's SeqRecord"
RULE = ("(a) exhaustive: every record over {A,C} of length 1..6 (thorough 1..8, plus {A,C,G} up to 5) x every query over the same "
        "alphabet of length 0..n+2 - on the record and on a library-made rotation of it - and every slice [a:b:c] with a,b in "
        "[-n-2,n+2] or None and c in {None,1,2,3,-1,-2}; (b) random DNA of length 1..60 with queries cut across the origin, their "
        "one-letter mutants and over-long queries, then the same object's sequence edited (same-length replacement, in-place MutableSeq "
        "point edit, reversal) and queried again; (c) + / += / reflected + with str, Seq, SeqRecord, CircularRecord, empty "
        "operands; constructor with topology linear/Linear/LINEAR (wrapped record and direct annotations); copy isolation of "
        "annotations, dbxrefs, features, qualifiers, letter annotations; (d) embedded annotated assemblies. "
        "Non-trivial = the query is non-empty and not longer than the record, or the slice is non-empty; distinct = distinct "
        "(record text, query) / (record text, slice).")
ASSUMPTIONS = ["queries are Python strings of the same letter case as the record", "records have length >= 1"]
FLOORS = {"contains_calls": 5000, "getitem_slice_calls": 2000, "add_checks": 100, "topology_checks": 20, "copy_checks": 20}
MUST_REACH = ["CircularRecord.__contains__", "CircularRecord.__getitem__", "CircularRecord.__init__"]
BUDGET_S = {"quick": 600, "thorough": 3600}


def cases(tier, seed):
    out = []
    maxn = 6 if tier == "quick" else 8
    for n in range(1, maxn + 1):
        words = ["".join(w) for w in itertools.product("AC", repeat=n)]
        for j in range(0, len(words), 8):
            out.append({"kind": "exh", "alpha": "AC", "words": words[j:j + 8]})
    if tier == "thorough":
        for n in range(1, 6):
            words = ["".join(w) for w in itertools.product("ACG", repeat=n)]
            for j in range(0, len(words), 8):
                out.append({"kind": "exh", "alpha": "ACG", "words": words[j:j + 8]})
    nr = 300 if tier == "quick" else 150000
    out += [{"kind": "rand", "i": i, "seed": seed} for i in range(nr)]
    out += [{"kind": "ops", "i": i, "seed": seed} for i in range(30 if tier == "quick" else 3000)]
    # sizes around the powers of two where implementations switch strategy
    out += [{"kind": "big", "n": n, "seed": seed} for n in ([65535, 65536, 65537, 70001] if tier == "quick" else [4095, 4096, 4097, 65535, 65536, 65537, 70001, 131071, 131072, 131073, 1048577])]
    out += _embedded.assembly_cases(seed, 24 if tier == "quick" else 3000)
    return out


def materialise(case):
    if case["kind"] == "assembly":
        return _embedded.materialise_assembly(case)
    return case


_mon = None


def worker_init(ctx, tier):
    global _mon
    _mon = CircleMonitor(ctx)
    _mon.install()


def _rec(s, **kw):
    from Bio.Seq import Seq
    from moclo.record import CircularRecord

    if len(s) % 3 != 1 and "letter_annotations" not in kw:
        # two records in three carry per-letter tracks (a list-valued and a string-valued one), as sequencing reads do
        kw["letter_annotations"] = {"q": list(range(len(s))), "ss": "".join("<>."[j % 3] for j in range(len(s)))}
    return CircularRecord(Seq(s), "x", **kw)


def execute(mat, ctx):
    kind = mat["kind"]
    if kind == "assembly-mat":
        _embedded.run_assembly(mat, ctx)
        ctx.count("embedded_assemblies")
        return
    if kind == "exh":
        for s in mat["words"]:
            n = len(s)
            r = _rec(s, annotations={"topology": "circular"} if n % 2 else None)
            rk = r >> (n // 2)
            for L in range(0, n + 3):
                for q in itertools.product(mat["alpha"], repeat=L):
                    q = "".join(q)
                    ctx.count("evaluations")
                    a = q in r
                    b = q in rk
                    if a != b:
                        ctx.violation("contains-rotation-dependent", "%r in %r is %r but %r after rotating the record by %d" % (q, s, a, b, n // 2), s=s, x=q)
                    if q and L <= n:
                        ctx.nontrivial([s, q])
            bounds = [None] + list(range(-n - 2, n + 3))
            for a in bounds:
                for b in bounds:
                    for c in (None, 1, 2, 3, -1, -2):
                        ctx.count("evaluations")
                        sl = r[a:b:c]
                        if len(sl):
                            ctx.nontrivial([s, a, b, c])
        ctx.sample({"kind": "exhaustive", "records": mat["words"][:3], "queries": "all words of length 0..n+2", "slices": "all a,b in [-n-2,n+2]+None, c in None,1,2,3,-1,-2"}, cap=1)
        return
    if kind == "big":
        n = mat["n"]
        rng = gen.rng_for(mat["seed"], PROP, kind, n)
        s = gen.rand_dna(rng, n)
        r = _rec(s, letter_annotations={})
        rk = r >> rng.randrange(1, n)
        d = s + s
        qs = [s, s + s[:1], s[-7:] + s + s[:7], d, d[5:n + 5], d[n - 3:n + 9], d[n - 1:2 * n - 1] + "A", s[:9], "", s[:n - 1],
              s[1:] + ("A" if s[0] != "A" else "C")]
        for _ in range(6):
            a, L = rng.randrange(n), rng.choice([1, 17, n - 1, n, n + 1, n + 13])
            qs.append(d[a:a + L] if a + L <= 2 * n else d[a:])
        for q in qs:
            ctx.count("evaluations")
            ctx.count("big_record_queries")
            a = q in r
            b = q in rk
            if a != b:
                ctx.violation("contains-rotation-dependent", "a query of %d letters in a record of %d: %r, but %r after rotating the record" % (len(q), n, a, b), n=n, qlen=len(q))
        for a, b in ((n - 5, None), (None, 7), (n // 2, n // 2 + 11), (-3, None)):
            r[a:b]
        ctx.nontrivial(["big", n])
        ctx.sample({"kind": "big", "length": n, "queries": len(qs)}, cap=4)
        return
    rng = gen.rng_for(mat["seed"], PROP, kind, mat["i"])
    if kind == "rand":
        n = rng.randint(1, 60)
        s = gen.rand_dna(rng, n)
        r = _rec(s)
        d = s + s
        qs = []
        for _ in range(12):
            L = rng.randint(1, n)
            a = rng.randrange(n) if rng.random() < 0.5 else rng.randint(max(0, n - L), n - 1)
            q = d[a:a + L]
            qs.append(q)
            i = rng.randrange(L)
            qs.append(q[:i] + rng.choice([x for x in "ACGT" if x != q[i]]) + q[i + 1:])
        qs += [s + s[:1], d, "", rot_left(s, rng.randrange(n))]
        # strings that are not DNA at all, as pasted from a document: an accented letter, a no-break space, Greek / Cyrillic
        # look-alikes of A and C - each as long as a query that fits and one letter long
        qs += [s[:max(0, min(n, 3) - 1)] + x for x in ("\u00e9", "\u00a0", "\u0391", "\u0421")] + ["\u0391"]
        if mat["i"] % 3 == 0:
            # a lower-case (soft-masked) record with lower-case queries, plus queries in the other case (which occur in no rotation)
            s = s.lower()
            r = _rec(s)
            qs = [q.lower() for q in qs] + [q.upper() for q in qs[:6] if q]
        elif mat["i"] % 3 == 1:
            qs += [q.lower() for q in qs[:6] if q]
        k = rng.randrange(n)
        rk = r << k
        for q in qs:
            ctx.count("evaluations")
            a = q in r
            b = q in rk
            if a != b:
                ctx.violation("contains-rotation-dependent", "%r in record is %r but %r after rotating the record left by %d" % (q[:60], a, b, k), s=s, x=q)
            if q and len(q) <= n:
                ctx.nontrivial([s, q])
        for _ in range(10):
            a, b = rng.randint(-n - 2, n + 2), rng.randint(-n - 2, n + 2)
            r[a:b:rng.choice([None, None, 1, 2, -1])]
        # history on the SAME object: the sequence is edited after it has been queried (a same-length replacement, a point
        # edit of a MutableSeq in place, a different length) and the same queries are asked again
        from Bio.Seq import Seq, MutableSeq
        how = mat["i"] % 4
        s2 = None
        if how == 0:
            s2 = gen.rand_dna(rng, n) if s.isupper() else gen.rand_dna(rng, n).lower()
            r.seq = Seq(s2)
        elif how == 1:
            m = _rec(s)
            m.seq = MutableSeq(s)
            for q in qs[:6]:
                q in m
            j = rng.randrange(n)
            m.seq[j] = rng.choice([x for x in ("ACGT" if s.isupper() else "acgt") if x != s[j]])
            r, s2 = m, str(m.seq)
        elif how == 2:
            s2 = s[::-1]
            r.seq = Seq(s2)
        if s2 is not None:
            ctx.count("edited_then_queried")
            d2 = s2 + s2
            again = list(qs) + [d2[a:a + L] for a, L in ((rng.randrange(n), rng.randint(1, n)) for _ in range(8))]
            for q in again:
                ctx.count("evaluations")
                q in r
            for _ in range(4):
                a, b = rng.randint(-n - 2, n + 2), rng.randint(-n - 2, n + 2)
                r[a:b:rng.choice([None, 1, -1])]
        ctx.sample({"kind": "rand", "record": s, "queries": qs[:4]}, cap=2)
        return
    # kind == "ops": +, constructor, copy
    from Bio.Seq import Seq
    from Bio.SeqRecord import SeqRecord
    from Bio.SeqFeature import SeqFeature, FeatureLocation
    from moclo.record import CircularRecord

    n = rng.randint(1, 20)
    s = gen.rand_dna(rng, n)
    r = _rec(s)
    operands = {"str": "A", "empty-str": "", "Seq": Seq("AC"), "empty-Seq": Seq(""), "SeqRecord": SeqRecord(Seq("ACG"), "o"),
                "CircularRecord": _rec("ACGT"), "self": r}
    for name, other in operands.items():
        def iadd():
            x = _rec(s)
            x += other
            return x
        for opname, f in (("r + x", lambda: r + other), ("x + r", lambda: other + r), ("r += x", iadd)):
            ctx.count("add_checks")
            ctx.count("evaluations")
            try:
                res = f()
                ctx.violation("add-accepted:%s" % opname, "%s with x a %s returned %r instead of raising TypeError" % (opname, name, type(res).__name__), operand=name, s=s)
            except TypeError:
                pass
            except Exception as e:
                ctx.violation("add-wrong-error:%s" % opname, "%s with x a %s raised %s instead of TypeError" % (opname, name, type(e).__name__), operand=name, s=s)
    for topo in ("linear", "Linear", "LINEAR", "lInEaR"):
        for how in ("wrap", "direct"):
            ctx.count("topology_checks")
            ctx.count("evaluations")
            try:
                if how == "wrap":
                    CircularRecord(SeqRecord(Seq(s), "l", annotations={"topology": topo, "molecule_type": "DNA"}))
                else:
                    CircularRecord(Seq(s), "l", annotations={"topology": topo})
                ctx.violation("linear-accepted:%s" % how, "a record declaring topology=%r was wrapped as circular (%s)" % (topo, how), topology=topo)
            except ValueError:
                pass
    # a CircularRecord whose annotations were later edited to declare a linear molecule cannot be wrapped either
    late = CircularRecord(Seq(s), "late", annotations={"topology": "circular"})
    late.annotations["topology"] = rng.choice(["linear", "Linear", "LINEAR"])
    ctx.count("topology_checks")
    try:
        CircularRecord(late)
        ctx.violation("linear-accepted:circular-record-edited", "a CircularRecord whose annotations declare topology=%r was wrapped as circular" % late.annotations["topology"])
    except ValueError:
        pass
    for topo in ("circular", "Circular", None):
        ann = {"topology": topo} if topo else {}
        try:
            CircularRecord(SeqRecord(Seq(s), "c", annotations=ann))
        except Exception as e:
            ctx.violation("circular-refused", "a record declaring topology=%r was refused: %s" % (topo, type(e).__name__), topology=topo)
    # copy isolation
    base = SeqRecord(Seq(s), "base", "bname", "bdesc", dbxrefs=["d:1"],
                     features=[SeqFeature(FeatureLocation(0, n, 1), type="misc", qualifiers={"a": ["1"]})],
                     annotations={"topology": "circular", "k": [1], "nested": {"x": [1]}},
                     letter_annotations={"q": list(range(n))})
    snap = lambda b: (str(b.seq), b.id, b.name, b.description, copy.deepcopy(b.dbxrefs), [(f.type, str(f.location), copy.deepcopy(f.qualifiers)) for f in b.features],
                      copy.deepcopy(b.annotations), copy.deepcopy(dict(b.letter_annotations)))
    if mat["i"] % 2:
        base = CircularRecord(base)          # the record being wrapped is itself a CircularRecord (a rotation, a product, a registry plasmid)
        ctx.count("copy_checks_on_circular_originals")
    before = snap(base)
    c = CircularRecord(base)
    if (str(c.seq), c.id, c.name, c.description) != (s, "base", "bname", "bdesc") or len(c.features) != 1:
        ctx.violation("wrap-loses-content", "wrapping a SeqRecord lost sequence/identifiers/features")
    edits = [
        ("annotations-list", lambda: c.annotations["k"].append(2)),
        ("annotations-nested", lambda: c.annotations["nested"]["x"].append(2)),
        ("annotations-key", lambda: c.annotations.__setitem__("new", 1)),
        ("dbxrefs", lambda: c.dbxrefs.append("e")),
        ("qualifiers", lambda: c.features[0].qualifiers["a"].append("2")),
        ("qualifier-key", lambda: c.features[0].qualifiers.__setitem__("b", ["x"])),
        ("feature-type", lambda: setattr(c.features[0], "type", "changed")),
        ("feature-list", lambda: c.features.append(SeqFeature(FeatureLocation(0, 1, 1), type="extra"))),
        ("letter-annotations", lambda: c.letter_annotations["q"].__setitem__(0, 99)),
        ("id", lambda: setattr(c, "id", "zz")),
    ]
    for name, edit in edits:
        ctx.count("copy_checks")
        ctx.count("evaluations")
        edit()
        if snap(base) != before:
            ctx.violation("wrap-aliases:%s" % name, "editing %s of the wrapped copy changed the original record" % name)
            before = snap(base)
    # originals whose containers are (partly) empty: a bare record, and one with features only
    for kind2, sparse in (("bare", SeqRecord(Seq(s), "bare")),
                          ("features-only", SeqRecord(Seq(s), "fo", features=[SeqFeature(FeatureLocation(0, n, 1), type="misc")]))):
        if mat["i"] % 2:
            sparse = CircularRecord(sparse)
        before = snap(sparse)
        c2 = CircularRecord(sparse)
        for name, edit in (("dbxrefs", lambda: c2.dbxrefs.append("e")),
                           ("feature-list", lambda: c2.features.append(SeqFeature(FeatureLocation(0, 1, 1), type="extra"))),
                           ("annotations-key", lambda: c2.annotations.__setitem__("new", 1)),
                           ("letter-annotations-key", lambda: c2.letter_annotations.__setitem__("q", list(range(n))))):
            ctx.count("copy_checks")
            ctx.count("evaluations")
            edit()
            if snap(sparse) != before:
                ctx.violation("wrap-aliases:%s:%s-original" % (name, kind2), "editing %s of the wrapped copy of a %s record changed the original record" % (name, kind2))
                before = snap(sparse)
    # an original holding a value Biopython accepts but copy.deepcopy refuses (a dict view as a qualifier / annotation value):
    # wrapping it may be refused, but a wrapper that exists must not share anything with the original
    for where in ("qualifier", "annotation"):
        exo = SeqRecord(Seq(s), "exo", features=[SeqFeature(FeatureLocation(0, n, 1), type="misc", qualifiers={"a": ["1"]}),
                                                  SeqFeature(FeatureLocation(0, 1, 1), type="gene", qualifiers={"b": ["2"]})],
                        annotations={"k": [1], "nested": {"x": [1]}})
        if where == "qualifier":
            exo.features[1].qualifiers["db_xref"] = {"GeneID:1": 1}.keys()
        else:
            exo.annotations["view"] = {"x": 1}.keys()
        light = lambda b: ([(f.type, str(f.location), {k: (list(v) if isinstance(v, list) else repr(v)) for k, v in f.qualifiers.items()}) for f in b.features],
                           {k: repr(v) for k, v in b.annotations.items()})
        before = light(exo)
        ctx.count("copy_checks")
        try:
            c3 = CircularRecord(exo)
        except Exception:
            ctx.count("wrap_refused_undeepcopyable")
            continue
        for name, edit in (("qualifiers", lambda: c3.features[0].qualifiers["a"].append("2")),
                           ("feature-location", lambda: setattr(c3.features[0], "location", FeatureLocation(0, 1, -1))),
                           ("annotations-list", lambda: c3.annotations["k"].append(2)),
                           ("annotations-nested", lambda: c3.annotations["nested"]["x"].append(2))):
            ctx.count("evaluations")
            edit()
            if light(exo) != before:
                ctx.violation("wrap-aliases:%s:undeepcopyable-%s" % (name, where), "editing %s of the wrapped copy changed an original that holds a dict view as a %s value" % (name, where))
                before = light(exo)
    ctx.nontrivial(["ops", s])
    ctx.sample({"kind": "ops", "record": s, "operands": sorted(operands), "edits": [e[0] for e in edits]}, cap=1)

"""C10 - Literature citations survive assembly with consistent numbering."""
import copy
import warnings

from .. import gen, asmmon, refmodel
from . import _embedded

from ..util import rc

PROP = "C10"
LEVEL = "exploration"
DESIGN_REF = "DESIGN.md section 4, C10"
TECHNIQUE = "runtime monitor (post-condition on AbstractVector.assemble with before/after snapshots) resolving every citation through unique reference titles; differential run with citations stripped; repeated calls"
LEVEL_TEXT = ("Each assemble() call on annotated inputs carrying reference lists is intercepted; every citation qualifier of every "
              "surviving feature is resolved against the product's reference list and must reach the reference (compared field-wise; "
              "titles are unique by construction) its source feature resolved to in its own record; form [n], no cited reference listed "
              "twice, inputs' indices untouched; the same assembly with citations stripped must give the same sequence and features; "
              "three consecutive calls.")
LEVEL_NOTE = "unique-value idiom: every generated reference has a unique title, so a citation identifies the reference it points to; references inside one record are pairwise distinct (assumption)"
RULE = ("generated assemblies (BsaI/BbsI/BsmBI + 3 other geometries, 1..4 modules, every record rotated, argument order permuted) "
        "whose records carry reference lists of 0..5 entries drawn from a common pool of 9 (so references are shared between inputs or "
        "unique to one), features citing 0..3 of them, placed inside, across and outside the retained fragments. "
        "Non-trivial = at least one cited feature survived into the product; distinct = distinct input sets.")
ASSUMPTIONS = ["references inside one record are pairwise distinct", "citation qualifiers are well-formed [n] with n in range",
               "uncited extra entries in the product's reference list are not a violation"]
FLOORS = {"c10_judged": 400, "c10_products_with_surviving_citations": 100, "c10_stripped_comparisons": 100, "c10_failed_calls_checked": 200}
MUST_REACH = ["AbstractVector.assemble", "AssemblyManager._deref_citations", "AssemblyManager._ref_citations"]
BUDGET_S = {"quick": 900, "thorough": 7200}
ENZYMES = ["BsaI", "BbsI", "BsmBI", "FokI", "BspQI", "BtgZI"]


def cases(tier, seed):
    n = 700 if tier == "quick" else 100000
    out = []
    for i in range(n):
        out.append({"kind": "assembly", "i": i, "seed": seed, "enzyme": ENZYMES[i % len(ENZYMES)],
                    "opts": {"features": True, "refs": True, "max_chain": 4, "tmax": 30, "bmax": 25, "pmax": 15}})
    return out


def materialise(case):
    if case.get("kind") == "assembly-mat":
        return case
    m = _embedded.materialise_assembly(case)
    # own stream: in one case in eight the reference lists hold reference-like objects of another class (annotations accept
    # any object; the library only compares and copies them)
    rd = gen.rng_for(case["seed"], PROP, "duck", case["enzyme"], case["i"])
    u = rd.random()
    if u < 0.125:
        for s in [m["vector"]] + m["modules"]:
            for ref in s.get("refs", []):
                ref["duck"] = True
    elif u < 0.3:
        # Biopython documents Reference.authors as "a big old string, or a list split by author"
        for s in [m["vector"]] + m["modules"]:
            for ref in s.get("refs", []):
                if rd.random() < 0.5:
                    ref["authors_list"] = True
    return m


_mon = None


def worker_init(ctx, tier):
    global _mon
    _mon = asmmon.AssembleMonitor(ctx, [asmmon.make_c10_judge()], snapshot=asmmon.deep_snapshot)
    _mon.install()


def geom_k(mat):
    return refmodel.geometry(gen.enzyme(mat["enzyme"]))[2]


def _strip(mat):
    m = copy.deepcopy(mat)
    for s in [m["vector"]] + m["modules"]:
        s.pop("refs", None)
        for f in s["features"]:
            f["quals"].pop("citation", None)
    return m


def _features_wo_citation(prod):
    out = []
    for f in prod.features:
        q = {k: v for k, v in f.qualifiers.items() if k != "citation"}
        out.append((f.type, repr(f.location), sorted((k, tuple(v) if isinstance(v, list) else v) for k, v in q.items())))
    return sorted(out)


def execute(mat, ctx):
    ctx.count("evaluations")
    before = ctx.counters["c10_products_with_surviving_citations"]
    if len(mat["modules"]) >= 2 and (len(mat["vector"]["seq"]) + len(mat["modules"])) % 4 == 0:
        # two different plasmids that carry the same identifier (both still "<unknown id>", two exports called alike)
        mat = copy.deepcopy(mat)
        same_id = ["<unknown id>", "Exported", mat["modules"][0]["id"]][len(mat["vector"]["seq"]) % 3]
        for ms in mat["modules"][:2]:
            ms["id"] = ms["name"] = same_id
        ctx.count("c10_cases_with_two_inputs_of_one_id")
    vrec = gen.make_record(mat["vector"])
    mrecs = [gen.make_record(m) for m in mat["modules"]]
    first = None
    for call in range(3):
        _mon.tag = {"call": call + 1}
        res = _embedded.run_assembly(mat, ctx, records=(vrec, mrecs))
        if res["outcome"] != "product":
            e = res["error"]
            ctx.violation("assembly-with-citations-raises:%s" % type(e).__name__,
                          "call %d: assembling annotated inputs raised %s: %s" % (call + 1, type(e).__name__, str(e)[:200]))
            return
        sig = (str(res["product"].seq), _features_wo_citation(res["product"]),
               [f.qualifiers.get("citation") for f in res["product"].features],
               [asmmon.flat_ref(r) for r in res["product"].annotations.get("references", [])])
        if first is None:
            first = sig
        elif sig != first:
            ctx.violation("repeated-call-changes-citations", "call %d on the same inputs differs from call 1 (%s)" % (
                call + 1, "sequence" if sig[0] != first[0] else "features" if sig[1] != first[1] else "citations/references"))
    _mon.tag = {"call": "citations-stripped"}
    plain = _embedded.run_assembly(_strip(mat), ctx)
    ctx.count("c10_stripped_comparisons")
    if plain["outcome"] != "product":
        ctx.violation("harness:stripped-assembly-failed", "the same assembly without citations failed: %r" % plain.get("error"))
    elif str(plain["product"].seq) != first[0] or _features_wo_citation(plain["product"]) != first[1]:
        ctx.violation("citations-change-the-assembly", "with citations the product %s differs from the product of the same inputs without citations" % (
            "sequence" if str(plain["product"].seq) != first[0] else "features"))
    # failing calls: a missing module, and a dangling / malformed citation in the element processed last or first;
    # the citation indices of every input must read the same afterwards
    rng = gen.rng_for("c10-fail", mat["id"])
    import warnings as _w
    V, M = gen.generic_classes(mat["enzyme"])
    if len(mrecs) > 1:
        _mon.tag = {"call": "missing-module"}
        try:
            with _w.catch_warnings():
                _w.simplefilter("ignore")
                V(vrec).assemble(*[M(r) for r in mrecs[1:]])
        except Exception:
            pass
    specs = [mat["vector"]] + list(mat["modules"])
    if any("citation" in f["quals"] for s in specs for f in s["features"]):
        j = rng.choice([0, len(specs) - 1])
        bad = copy.deepcopy(specs[j])
        badcit = [rng.choice(["[99]", "7", "[x]"])]
        # own stream: the bad citation is not the feature's first one - the valid ones before it have been looked up already
        # when the call fails half-way through the feature
        rb = gen.rng_for(mat["id"], PROP, "bad-citation-position", len(specs))
        withrefs = [i for i, s in enumerate(specs) if s.get("refs")]
        if withrefs and rb.random() < 0.6:
            j = rb.choice(withrefs)
            bad = copy.deepcopy(specs[j])
            nr = len(bad["refs"])
            badcit = ["[%d]" % rb.randint(1, nr) for _ in range(rb.randint(1, 2))] + badcit + (["[%d]" % rb.randint(1, nr)] if rb.random() < 0.5 else [])
        bad["features"] = list(bad["features"]) + [{"type": "misc_feature", "parts": [[0, 1, 1]], "quals": {"uid": ["bad"], "citation": badcit}}]
        recs = [vrec] + mrecs
        recs[j] = gen.make_record(bad)
        _mon.tag = {"call": "bad-citation"}
        try:
            with _w.catch_warnings():
                _w.simplefilter("ignore")
                V(recs[0]).assemble(*[M(r) for r in recs[1:]])
        except Exception:
            pass
    # the same wrapper objects across a failed call and the corrected one (what a user fixing a forgotten module does)
    ev, em = V(vrec), [M(r) for r in mrecs]
    if len(em) > 1:
        _mon.tag = {"call": "same-wrappers:forgotten-module"}
        try:
            with _w.catch_warnings():
                _w.simplefilter("ignore")
                ev.assemble(*em[:-1] if rng.random() < 0.5 else em[1:])
        except Exception:
            pass
    else:
        _mon.tag = {"call": "same-wrappers:warning-as-error"}
        try:
            with _w.catch_warnings():
                _w.simplefilter("error")
                ev.assemble(*(em + [M(gen.make_record(dict(mat["modules"][0], id="twin")))]))
        except Exception:
            pass
    # the record of a module is edited in place between two uses of the same entity: a feature inside its retained fragment
    # starts citing the record's last reference
    j0 = next((j for j, ms in enumerate(mat["modules"]) if ms.get("refs")), None)
    if j0 is not None:
        ms = mat["modules"][j0]
        n0 = len(ms["seq"])
        a0 = (ms["built"]["frag_start_unrotated"] - ms["built"]["rot_left"] + geom_k(mat) + 1) % n0
        from Bio.SeqFeature import SeqFeature, FeatureLocation
        if a0 + 2 <= n0 and ms["built"]["frag_len"] > geom_k(mat) + 4:
            mrecs[j0].features.append(SeqFeature(FeatureLocation(a0, a0 + 2, 1), type="misc_feature",
                                                 qualifiers={"uid": ["%s.late" % ms["id"]], "citation": ["[%d]" % len(ms["refs"])]}))
            _mon.tag = {"call": "same-wrappers:after-a-feature-started-citing"}
            ctx.count("c10_calls_after_record_edit")
            try:
                with _w.catch_warnings():
                    _w.simplefilter("ignore")
                    ev.assemble(*em, id=mat.get("id", "assembly"), name=mat.get("name", "assembly"))     # judged by the monitor
            except Exception as e:
                ctx.violation("assembly-after-record-edit-raises:%s" % type(e).__name__, "after a feature was added to a module record the same entities raised %s: %s" % (type(e).__name__, str(e)[:160]))
            del mrecs[j0].features[-1]
    # the documented way of refusing leftovers: warnings escalated to errors, with a valid module that takes no part in the chain
    geom = refmodel.geometry(gen.enzyme(mat["enzyme"]))
    used_ov = set(mat["overhangs"]) | {rc(o) for o in mat["overhangs"]}
    try:
        o = [x for x in gen.gen_overhangs(rng, geom[2], 6, forbid=(geom[0], rc(geom[0]))) if x not in used_ov][:2]
        if len(o) == 2:
            sp = gen.build_module(rng, geom, o[0], o[1], rng.randint(2, 12), rng.randint(0, 10))
            sspec = {"id": "spare", "seq": sp["seq"], "refs": [dict(_embedded._ref(1), span=True)],
                     "features": [{"type": "misc_feature", "parts": [[0, 3, 1]], "quals": {"uid": ["spare.0"], "citation": ["[1]"]}}]}
            # first as an ordinary call: the leftover module (which carries citations too) is only warned about
            spare_ent = M(gen.make_record(sspec))
            for n in (1, 2):
                _mon.tag = {"call": "same-wrappers:with-unused-cited-module:%d" % n}
                ctx.count("c10_calls_with_unused_cited_module")
                try:
                    with _w.catch_warnings():
                        _w.simplefilter("ignore")
                        ev.assemble(*(em + [spare_ent]), id=mat.get("id", "assembly"), name=mat.get("name", "assembly"))
                except Exception as e:
                    ctx.violation("assembly-with-unused-cited-module-raises:%s" % type(e).__name__,
                                  "call %d with a cited module that takes no part in the chain raised %s: %s" % (n, type(e).__name__, str(e)[:160]))
                    break
            _mon.tag = {"call": "same-wrappers:unused-module-escalated-to-error"}
            ctx.count("c10_escalated_unused_module_calls")
            _mon.keep_filters = True
            try:
                with _w.catch_warnings():
                    _w.simplefilter("error")
                    ev.assemble(*(em + [M(gen.make_record(sspec))]))
            except Exception:
                pass
            finally:
                _mon.keep_filters = False
    except RuntimeError:
        pass
    _mon.tag = {"call": "same-wrappers:corrected-call"}
    ctx.count("c10_corrected_calls_on_same_wrappers")
    try:
        with _w.catch_warnings():
            _w.simplefilter("ignore")
            p2 = ev.assemble(*em, id=mat.get("id", "assembly"), name=mat.get("name", "assembly"))     # judged by the monitor
        sig = (str(p2.seq), _features_wo_citation(p2), [f.qualifiers.get("citation") for f in p2.features],
               [asmmon.flat_ref(r) for r in p2.annotations.get("references", [])])
        if sig != first:
            ctx.violation("corrected-call-after-failure-differs", "the corrected call on the same vector/module objects after a failed call differs from a first call (%s)" % (
                "sequence" if sig[0] != first[0] else "features" if sig[1] != first[1] else "citations/references"))
    except Exception as e:
        ctx.violation("corrected-call-after-failure-raises:%s" % type(e).__name__, "the corrected call on the same vector/module objects raised %s: %s" % (type(e).__name__, str(e)[:160]))
    if ctx.counters["c10_products_with_surviving_citations"] > before:
        ctx.nontrivial([mat["enzyme"], mat["vector"]["seq"], [m["seq"] for m in mat["modules"]]])
        ctx.sample({"enzyme": mat["enzyme"], "references_per_record": [len(s.get("refs", [])) for s in [mat["vector"]] + mat["modules"]],
                    "input_citations": [[f["quals"]["uid"][0], f["quals"]["citation"]] for s in [mat["vector"]] + mat["modules"] for f in s["features"] if "citation" in f["quals"]][:5],
                    "product_citations": [[(f.qualifiers.get("uid") or ["?"])[0], f.qualifiers["citation"]] for f in res["product"].features if "citation" in f.qualifiers][:5],
                    "product_references": [r.title for r in res["product"].annotations.get("references", [])]}, cap=3)

"""C18 - Letter case of the input sequences never changes the outcome."""
import warnings

from .. import asmmon, gen, refmodel
from ..util import rot_left, rc, canon
from . import _embedded, C03, C05

PROP = "C18"
LEVEL = "exploration"
DESIGN_REF = "DESIGN.md section 4, C18"
TECHNIQUE = "metamorphic runtime monitor: outcomes of the real typing and assembly calls on case-transformed copies compared with the all-upper-case run"
LEVEL_TEXT = ("Typing tuples and assembly outcomes (product up to rotation and case, or exception class with upper-cased overhang) "
              "observed on lower-, per-record- and per-letter-random-case spellings of the same plasmids are compared with the "
              "observation on the all-upper spelling, for generated assemblies over every geometry, the overhang graphs of C03 "
              "(so errors are compared too), kit part typing, and kit-structure instances with extra sites.")
LEVEL_NOTE = "equality with the upper-case run is the oracle; no model involved"
RULE = ("case maps: all lower, per-record random (each record wholly lower or upper), per-letter random, 'overhangs only lower'; applied "
        "to (a) generated assemblies for every supported geometry (complete chains), (b) C03 overhang graphs of 1..3 modules (products, "
        "InvalidSequence, DuplicateModules, MissingModule outcomes), (c) typing queries of all 85 kit classes and generic classes on "
        "own instances, other instances, instances with an extra cutter site, near-misses, (d) every plasmid of the five bundled registries under the class the registry types it as. Non-trivial = the case map changes at least "
        "one letter of at least one record and the upper-case outcome is not a rejection of every record (typing: the record is accepted "
        "in upper case); distinct = distinct (workload item, case map)."
        " Second session: complete assemblies of the kits' own vector/module classes (C11's generator) and characterize() of registry plasmids through their family base under the case maps.")
ASSUMPTIONS = ["sequences over ACGT/acgt", "exceptions compared by class, upper-cased start_overhang / set of blamed module ids, and their rendered message up to letter case"]
FLOORS = {"c18_assembly_comparisons": 1000, "c18_typing_comparisons": 3000, "c18_error_outcomes_compared": 200, "c18_product_outcomes_compared": 300, "c18_registry_plasmids_typed": 300, "c18_kit_class_assemblies": 30, "c18_characterize_comparisons": 100}
MUST_REACH = ["AbstractVector.assemble", "AssemblyManager._generate_modules_map", "DNARegex._transcribe"]
BUDGET_S = {"quick": 900, "thorough": 7200}
NEEDS_REGISTRIES = True
MAPS = ["lower", "per-record", "per-letter", "per-letter", "mixed-upper-lower-halves"]


def cases(tier, seed):
    out = []
    n = 20 if tier == "quick" else 3000
    out += [dict(c, kind="asm") for c in _embedded.assembly_cases(seed, n * len(gen.enzyme_names()), features=False, max_chain=4)]
    types = [(a, b) for a in C03.ALPHA for b in C03.ALPHA]
    rng = gen.rng_for(seed, PROP, "graphs")
    for j in range(0, 600 if tier == "quick" else 120000, 20):
        sets = []
        for _ in range(20):
            sets.append({"v": list(rng.choice(types)), "mods": [list(rng.choice(types)) for _ in range(rng.randint(1, 3))]})
        out.append({"kind": "graphs", "sets": sets, "seed": seed, "j": j})
    per = 24 if tier == "quick" else 3000
    for c in gen.concrete_kit_classes():
        out.append({"kind": "typing", "cls": gen.class_name(c), "seed": seed, "count": per})
    for e in gen.enzyme_names():
        out.append({"kind": "typing-generic", "enzyme": e, "seed": seed, "count": per})
    # complete assemblies of the kits' own vector and module classes (hand-written structures, methods the kits override)
    from . import C11
    for name, _, _, _ in C11.triples():
        out.append({"kind": "kit-asm", "triple": name, "seed": seed, "count": 6 if tier == "quick" else 600})
    # typing through the family bases' characterize(): registry plasmids in every spelling
    for j in range(0, 372, 31):
        out.append({"kind": "characterize-registry", "from": j, "count": 31 if tier == "thorough" else 6, "seed": seed})
    # the real plasmids of the bundled registries (official overhangs, kb-sized backbones) under the class the registry types them as
    for j in range(0, 372, 12):
        out.append({"kind": "typing-registry", "from": j, "count": 12, "seed": seed, "variants": 3 if tier == "quick" else 12})
    return out


def materialise(case):
    return case


def worker_init(ctx, tier):
    # overhang graphs with closed loops are part of the workload: a walk that stops consuming modules is cut short on logical steps
    asmmon.install_walk_guard(ctx)


def apply_map(rng, texts, how):
    if how == "lower":
        return [t.lower() for t in texts]
    if how == "per-record":
        out = [t.lower() if rng.random() < 0.5 else t.upper() for t in texts]
        if all(o == t.upper() for o, t in zip(out, texts)):
            i = rng.randrange(len(out))
            out[i] = texts[i].lower()
        return out
    if how == "per-letter":
        return ["".join(c.lower() if rng.random() < 0.5 else c.upper() for c in t) for t in texts]
    return [t[: len(t) // 2].upper() + t[len(t) // 2:].lower() for t in texts]


def assemble_outcome(V, M, texts):
    from Bio.Seq import Seq
    from moclo.record import CircularRecord
    from moclo import errors

    recs = [CircularRecord(Seq(t), "v" if i == 0 else "m%d" % (i - 1)) for i, t in enumerate(texts)]
    with warnings.catch_warnings(record=True) as w:
        warnings.simplefilter("always")
        try:
            p = V(recs[0]).assemble(*[M(r) for r in recs[1:]])
            unused = sorted(r.record.id for x in w if isinstance(x.message, errors.UnusedModules) for r in x.message.remaining)
            return ("product", canon(str(p.seq)), tuple(unused))
        except errors.MissingModule as e:
            return ("MissingModule", str(e.start_overhang).upper(), asmmon.safe_str(e).upper())
        except errors.DuplicateModules as e:
            # the error as a whole, up to letter case: who is blamed, in which order, and what the message says
            return ("DuplicateModules", tuple(sorted(d.record.id for d in e.duplicates)), asmmon.safe_str(e).upper())
        except Exception as e:
            return (type(e).__name__,)
        except asmmon.RunawayWalk:
            return ("RunawayWalk",)       # a chain walk that does not end is C03's and C17's finding; here it is just an outcome


def compare_assembly(ctx, rng, V, M, texts, label):
    base = assemble_outcome(V, M, [t.upper() for t in texts])
    for how in MAPS:
        variant = apply_map(rng, texts, how)
        ctx.count("evaluations")
        got = assemble_outcome(V, M, variant)
        ctx.count("c18_assembly_comparisons")
        ctx.count("c18_product_outcomes_compared" if base[0] == "product" else "c18_error_outcomes_compared")
        ctx.hist("upper_case_outcome", base[0])
        if any(v != t.upper() for v, t in zip(variant, texts)):
            ctx.nontrivial([label, variant])
        if got != base:
            ctx.violation("case-changes-assembly:%s->%s" % (base[0], got[0]),
                          "%s: with case map %r the assembly ends with %r where the all-upper-case inputs give %r" % (
                              label, how, tuple(str(x)[:50] for x in got), tuple(str(x)[:50] for x in base)),
                          texts=variant, case_map=how, cls=[V.__name__, M.__name__])


def typing_outcome(cls, text, linear=False):
    from Bio.Seq import Seq
    from Bio.SeqRecord import SeqRecord
    from moclo.record import CircularRecord

    if linear:
        # a linear molecule (PCR product, linearised plasmid): a plain SeqRecord whose annotations say so
        e = cls(SeqRecord(Seq(text), "t", annotations={"topology": "linear"}))
    else:
        e = cls(CircularRecord(Seq(text), "t"))
    try:
        if not e.is_valid():
            return ("rejected",)
        out = ["accepted", str(e.overhang_start()).upper(), str(e.overhang_end()).upper(), str(e.target_sequence().seq).upper()]
        if hasattr(e, "placeholder_sequence"):
            out.append(str(e.placeholder_sequence().seq).upper())
        return tuple(out)
    except Exception as ex:
        return ("raised", type(ex).__name__)


def region_map(cls, text, inside_upper=True):
    """spell the first occurrence of the class's structure (found by the reference matcher on the upper-case text) in one
    case and everything else in the other - a record pasted together from two files"""
    from .. import rxmodel
    try:
        sp = rxmodel.search(cls.structure(), text.upper(), 0, None, True)
    except (KeyError, ValueError):
        sp = None
    if sp is None:
        return None
    n = len(text)
    a, b = sp[0]
    inside = {j % n for j in range(a, b)}
    return "".join((c.upper() if (j in inside) == inside_upper else c.lower()) for j, c in enumerate(text))


def compare_typing(ctx, rng, cls, text, mode, linear=False, hows=None):
    base = typing_outcome(cls, text.upper(), linear)
    variants = [(how, apply_map(rng, [text], how)[0]) for how in (hows or ("lower", "per-letter", "per-letter", "mixed-upper-lower-halves"))]
    for flag, name in ((True, "structure-upper-rest-lower"), (False, "structure-lower-rest-upper")) if hows is None else ():
        v = region_map(cls, text, flag)
        if v is not None:
            variants.append((name, v))
    for how, variant in variants:
        ctx.count("evaluations")
        got = typing_outcome(cls, variant, linear)
        ctx.count("c18_typing_comparisons")
        ctx.hist("typing_upper_outcome", "%s:%s" % (mode, base[0]))
        ctx.hist("case_map", how)
        if base[0] == "accepted" and variant != text.upper():
            ctx.nontrivial([cls.__name__, variant])
        if got != base:
            ctx.violation("case-changes-typing:%s->%s" % (base[0], got[0]),
                          "%s: spelling %r of a record is %s while its upper-case spelling is %s" % (
                              cls.__name__, how, tuple(str(x)[:40] for x in got), tuple(str(x)[:40] for x in base)),
                          cls=cls.__name__, text=variant, case_map=how)


def execute(mat, ctx):
    kind = mat["kind"]
    if kind == "asm":
        amat = _embedded.materialise_assembly(dict(mat, kind="assembly"))
        V, M = gen.generic_classes(amat["enzyme"])
        rng = gen.rng_for(mat["seed"], PROP, "asm", mat["i"])
        texts = [amat["vector"]["seq"]] + [m["seq"] for m in amat["modules"]]
        compare_assembly(ctx, rng, V, M, texts, "%s chain of %d" % (amat["enzyme"], len(texts) - 1))
        ctx.sample({"kind": "assembly", "enzyme": amat["enzyme"], "case_maps": MAPS, "vector": texts[0][:60]}, cap=1)
    elif kind == "graphs":
        V, M = gen.generic_classes("BsaI")
        for i, s in enumerate(mat["sets"]):
            rng = gen.rng_for(mat["seed"], PROP, "graph", mat["j"], i)
            texts = [C03._plasmid("BsaI", "V", s["v"][0], s["v"][1])] + [C03._plasmid("BsaI", "M", a, b) for a, b in s["mods"]]
            compare_assembly(ctx, rng, V, M, texts, "graph v=%s mods=%s" % (s["v"], s["mods"]))
        ctx.sample({"kind": "graph", "example": mat["sets"][0]}, cap=1)
    elif kind == "kit-asm":
        from . import C11
        from ..core import Ctx
        t = next(x for x in C11.triples() if x[0] == mat["triple"])
        for j in range(mat["count"]):
            rng = gen.rng_for(mat["seed"], PROP, kind, mat["triple"], j)
            try:
                built = C11.one_triple(Ctx("C11-as-generator"), *t, rng=rng, inputs_only=True)
            except RuntimeError:
                built = None
            if not built:
                ctx.count("kit_assembly_skipped_unbuildable")
                continue
            sv, mods = built
            ctx.count("c18_kit_class_assemblies")
            compare_assembly(ctx, rng, t[1], t[2], [sv] + mods, "%s chain of %d" % (mat["triple"], len(mods)))
        ctx.sample({"kind": kind, "triple": mat["triple"]}, cap=1)
    elif kind == "characterize-registry":
        from .. import regs
        from moclo.core.parts import AbstractPart
        from Bio.Seq import Seq
        from moclo.record import CircularRecord
        rng = gen.rng_for(mat["seed"], PROP, kind, mat["from"])

        def outcome(base, text):
            try:
                e = base.characterize(CircularRecord(Seq(text), "t"))
                return ("typed", type(e).__name__, str(e.overhang_start()).upper(), str(e.overhang_end()).upper())
            except RuntimeError:
                return ("RuntimeError",)
            except Exception as ex:
                return ("raised", type(ex).__name__)

        for name, key, cls, record in regs.items()[mat["from"]:mat["from"] + mat["count"]]:
            if not issubclass(cls, AbstractPart):
                continue
            # the family base: the kit class right under AbstractPart whose candidates include this type
            fam = next((b for b in cls.__mro__[1:] if issubclass(b, AbstractPart) and b is not AbstractPart and b.signature is NotImplemented), None)
            if fam is None:
                continue
            text = str(record.seq)
            base = outcome(fam, text.upper())
            for how in ("lower", "per-letter", "mixed-upper-lower-halves"):
                variant = apply_map(rng, [text], how)[0]
                ctx.count("evaluations")
                ctx.count("c18_characterize_comparisons")
                got = outcome(fam, variant)
                if base[0] == "typed":
                    ctx.nontrivial([fam.__name__, key, how])
                if got != base:
                    ctx.violation("case-changes-characterize:%s->%s" % (base[0], got[0]), "%s.characterize types registry plasmid %s as %s in upper case and as %s in spelling %r" % (
                        fam.__name__, key, base[:2], got[:2], how), plasmid=key, registry=name, case_map=how)
        ctx.sample({"kind": kind, "from": mat["from"]}, cap=1)
    elif kind == "typing-registry":
        from .. import regs
        rng = gen.rng_for(mat["seed"], PROP, kind, mat["from"])
        for name, key, cls, record in regs.items()[mat["from"]:mat["from"] + mat["count"]]:
            hows = ["lower", "mixed-upper-lower-halves"] + ["per-letter"] * (mat["variants"] - 2)
            ctx.count("c18_registry_plasmids_typed")
            compare_typing(ctx, rng, cls, str(record.seq), "registry", hows=hows)
        ctx.sample({"kind": kind, "from": mat["from"]}, cap=1)
    else:
        classes = gen.concrete_kit_classes()
        targets = [gen.class_by_name(mat["cls"])] if kind == "typing" else list(gen.generic_classes(mat["enzyme"]))
        rng = gen.rng_for(mat["seed"], PROP, kind, mat.get("cls") or mat.get("enzyme"))
        for cls in targets:
            for j in range(mat["count"] // len(targets)):
                mode = ["own", "own", "other", "extra-site", "mutant", "site-behind", "linear"][j % 7]
                src = cls if mode != "other" else rng.choice(classes)
                s = gen.instance(rng, src.structure(), run_max=15) + gen.rand_dna(rng, rng.randint(0, 20))
                if mode == "site-behind":
                    # a further site of the cutter *after* the regular structure (in the backbone)
                    s += rng.choice([cls.cutter.site, rc(cls.cutter.site)]) + gen.rand_dna(rng, rng.randint(1, 12))
                    compare_typing(ctx, rng, cls, s, mode)
                    continue
                if mode == "linear":
                    ctx.count("c18_linear_typing_cases")
                    compare_typing(ctx, rng, cls, gen.rand_dna(rng, rng.randint(0, 6)) + s, mode, linear=True)
                    continue
                if mode == "extra-site":
                    i = rng.randrange(len(s))
                    s = s[:i] + rng.choice([cls.cutter.site, rc(cls.cutter.site)]) + s[i:]
                if mode == "mutant":
                    i = rng.randrange(len(s))
                    s = s[:i] + rng.choice("ACGT") + s[i + 1:]
                compare_typing(ctx, rng, cls, rot_left(s, rng.randrange(len(s))), mode)
        ctx.sample({"kind": kind, "class": mat.get("cls") or mat.get("enzyme")}, cap=1)

"""C01 - Assembly yields exactly the Golden Gate ligation product."""
from .. import refmodel, gen, regs, asmmon
from . import _embedded

PROP = "C01"
LEVEL = "exploration"
DESIGN_REF = "DESIGN.md section 4, C01"
TECHNIQUE = "runtime monitor (post-condition on AbstractVector.assemble) against an independent string model of Type IIS digestion + ligation"
LEVEL_TEXT = ("Every assemble() call of the workload is intercepted; the monitor recomputes, from the argument records alone and by "
              "plain string search over (site, offset, overhang length), the fragments and the documented closed form, and compares "
              "the returned sequence up to rotation, its length, and the absence of errors/UnusedModules on complete chains. Held = "
              "no refuting call among the observed executions over all supported enzyme geometries, rotations and argument orders.")
LEVEL_NOTE = "trusts Biopython's enzyme table (site, fst5, size, ovhg attributes only) and the 80-line model mon/refmodel.py; inputs outside the model are counted, not judged"
RULE = ("generated: for every supported Type IIS geometry (one enzyme per distinct (site, cut offset, overhang length)) chains of "
        "1..min(6, cap) modules with pairwise distinct, non-palindromic, non-complementary overhangs, random target/backbone/"
        "placeholder contents with exactly one site per strand per plasmid, every plasmid independently rotated (60% hostile: origin "
        "inside a site, spacer, overhang or at the ends of the target), argument order permuted; registry: chains sampled from the "
        "overhang graph of each embedded registry (every vector; a generated GGAG/CGCT BsaI vector for Plant), expected product from "
        "cuts() on the real plasmids. Non-trivial = judged complete chain whose product was returned and compared; distinct = "
        "distinct (enzyme, input sequences, argument order)."
        " Second session: in one generated case in five every module (now and then the vector too) is called 'assembly', as re-used products are.")
ASSUMPTIONS = [
    "supported enzyme = 5' overhang, non-palindromic, single-cut, unambiguous 5-7 nt site, cut downstream (DESIGN section 3)",
    "each plasmid carries exactly one forward and one reverse site; module targets >= 2 nt, vector backbones >= 2 nt",
    "product compared up to rotation, case-insensitively (case is C18's subject)",
]
FLOORS = {"c01_kit_vector_assemblies_judged": 60, "c01_judged": 300, "c01_products_compared": 300, "c01_registry_judged": 10, "geometries_seen": 15}
MUST_REACH = ["AbstractVector.assemble", "AssemblyManager._generate_assembly", "AbstractModule.target_sequence", "AbstractVector.target_sequence"]
NEEDS_REGISTRIES = True
BUDGET_S = {"quick": 900, "thorough": 7200}


def setup(tier):
    regs.items()


def cases(tier, seed):
    per = 40 if tier == "quick" else 6000
    names = gen.enzyme_names()
    out = _embedded.assembly_cases(seed, per * len(names), features=False, max_chain=6)
    out += _embedded.registry_assembly_cases(seed, per_vector=2 if tier == "quick" else 40)
    # the hand-written vector structures of the kits (and the YTK product) with generated inserts
    from . import C11
    for name, _, _, _ in C11.triples():
        for j in range(0, 20 if tier == "quick" else 1500, 10):
            out.append({"kind": "kit-triple", "triple": name, "from": j, "count": 10, "seed": seed})
    # plasmids that are nothing but their structure (no backbone at all), stored with the origin on the first letter of the
    # structure or next to it, carrying features as an earlier rotation leaves them (running past the end of the record)
    out += [{"kind": "bare", "i": i, "seed": seed, "enzyme": names[i % len(names)]} for i in range(72 if tier == "quick" else 7200)]
    return out


def _bare(case):
    from ..util import rc
    rng = gen.rng_for(case["seed"], PROP, "bare", case["enzyme"], case["i"])
    geom = refmodel.geometry(gen.enzyme(case["enzyme"]))
    site, nn, k = geom
    nm = rng.randint(1, min(3, gen.max_distinct_overhangs(k) - 1))
    for _ in range(50):
        try:
            ov = gen.gen_overhangs(rng, k, nm + 1, forbid=(site, rc(site)))
            v = gen.build_vector(rng, geom, o_start=ov[nm], o_end=ov[0], plen=rng.randint(0, 12), blen=rng.choice([2, 2, 3, 9]))
            mods = [gen.build_module(rng, geom, ov[i], ov[i + 1], rng.randint(2, 20), 0) for i in range(nm)]
            break
        except RuntimeError:
            continue
    else:
        raise RuntimeError("cannot build bare plasmids for %s" % case["enzyme"])
    specs = []
    for idx, b in enumerate([v] + mods):
        n = len(b["seq"])
        r = rng.choice([0, 0, 1, n - 1, rng.randrange(n)]) if idx else rng.randrange(n)
        feats = []
        for j in range(rng.randint(0, 2)):
            a = rng.randint(max(0, n - 6), n - 1)
            feats.append({"type": "misc_feature", "parts": [[a, n + rng.randint(1, 5), rng.choice([1, -1])]], "quals": {"uid": ["b%d.%d" % (idx, j)]}})
        if rng.random() < 0.3:
            feats.append({"type": "misc_feature", "parts": [[3, 9, 1, "J00194.1", None]], "quals": {"uid": ["b%d.remote" % idx]}})
        from ..util import rot_left
        specs.append({"id": "vec" if idx == 0 else "mod%d" % (idx - 1), "seq": rot_left(b["seq"], r), "features": feats,
                      "built": {"rot_left": r, "frag_start_unrotated": b["frag_start"], "frag_len": b["frag_len"]}})
    order = list(range(nm))
    rng.shuffle(order)
    return {"kind": "assembly-mat", "enzyme": case["enzyme"], "vector": specs[0], "modules": [specs[1 + i] for i in order],
            "chain": [order.index(i) for i in range(nm)], "id": "bare%d" % case["i"], "name": "bare%d" % case["i"], "overhangs": ov}


def _ids(m, case):
    """own stream: what the input records are called is no part of the formula - in one case in five every module (and now
    and then the vector as well) carries the library's default product name, as products of earlier assemblies do"""
    r = gen.rng_for(case["seed"], PROP, "input-ids", case["kind"], case["enzyme"], case["i"])
    if r.random() < 0.2:
        for s in m["modules"] + ([m["vector"]] if r.random() < 0.3 else []):
            s["id"] = s["name"] = "assembly"
        m["default_named_inputs"] = True
    return m


def materialise(case):
    if case["kind"] == "assembly":
        return _ids(_embedded.materialise_assembly(case), case)
    if case["kind"] == "bare":
        return _ids(_bare(case), case)
    return case


_mon = None


def worker_init(ctx, tier):
    global _mon
    strict = set()
    for name in gen.enzyme_names() + ["BsaI", "BsmBI", "BbsI", "BpiI"]:
        strict.update(gen.all_harness_classes(name))
    _mon = asmmon.AssembleMonitor(ctx, [asmmon.make_c01_judge(strict)])
    _mon.install()
    ctx._geoms = set()


def execute(mat, ctx):
    if mat["kind"] == "kit-triple":
        # C11's generator drives assemblies of kit vector classes; only the C01 judge installed on assemble() speaks here
        from . import C11
        from ..core import Ctx
        t = next(x for x in C11.triples() if x[0] == mat["triple"])
        for j in range(mat["from"], mat["from"] + mat["count"]):
            rng = gen.rng_for(mat["seed"], PROP, mat["triple"], j)
            before = ctx.counters["c01_judged"]
            _mon.tag = {"kind": "kit-triple", "triple": mat["triple"], "strict": True}
            try:
                C11.one_triple(Ctx("C11-as-workload"), *t, rng=rng)
            except RuntimeError:
                pass
            ctx.count("evaluations")
            if ctx.counters["c01_judged"] > before:
                ctx.count("c01_kit_vector_assemblies_judged")
        return
    ctx.count("evaluations")
    before = ctx.counters["c01_judged"]
    if mat["kind"] == "assembly-mat":
        _mon.tag = {"kind": "generated"}
        if mat.get("default_named_inputs"):
            ctx.count("c01_assemblies_of_inputs_all_called_assembly")
        res = _embedded.run_assembly(mat, ctx)
        sig = ["gen", mat["enzyme"], mat["vector"]["seq"], [m["seq"] for m in mat["modules"]]]
        sample = {"kind": "generated", "enzyme": mat["enzyme"], "vector": mat["vector"]["seq"],
                  "modules": [m["seq"] for m in mat["modules"]], "overhangs": mat["overhangs"]}
    else:
        _mon.tag = {"kind": "registry", "strict": True}
        res = _embedded.run_registry_assembly(mat, ctx)
        sig = ["reg", mat["reg"], mat["vector"], mat["modules"], mat["rots"]]
        sample = {"kind": "registry", "registry": mat["reg"], "vector": mat["vector"] or "generated GGAG/CGCT", "modules": mat["modules"]}
    judged = ctx.counters["c01_judged"] > before
    if judged and mat["kind"] != "assembly-mat":
        ctx.count("c01_registry_judged")
    if not judged and mat["kind"] == "assembly-mat":
        ctx.violation("harness:generated-case-not-judged", "generated well-formed assembly was outside the monitor's model: %r" % (_mon.last.model,))
    if judged and res["outcome"] == "product":
        ctx.count("c01_products_compared")
        ctx.nontrivial(sig)
        m = _mon.last.model
        g = "%s/%d/%d" % m["geom"]
        if g not in ctx._geoms:
            ctx._geoms.add(g)
        sample["product_length"] = len(res["product"])
        ctx.sample(sample, cap=2)


def worker_fini(ctx, tier):
    pass


def finalize(agg, tier):
    geoms = agg["hists"].get("c01_geometry", {})
    agg["counters"]["geometries_seen"] = len(geoms)
    return {"enzyme_geometry_classes_seen": len(geoms)}

"""C01 - Assembly yields exactly the Golden Gate ligation product."""
from .. import gen, regs, asmmon
from . import _embedded

PROP = "C01"
LEVEL = "exploration"
DESIGN_REF = "DESIGN.md section 4, C01"
TECHNIQUE = "runtime monitor (post-condition on AbstractVector.assemble) against an independent string model of Type IIS digestion + ligation"
LEVEL_TEXT = ("Every assemble() call of the workload is intercepted; the monitor recomputes, from the argument records alone and by "
              "plain string search over (site, offset, overhang length), the fragments and the documented closed form, and compares "
              "the returned sequence up to rotation, its length, and the absence of errors/UnusedModules on complete chains. Held = "
              "no refuting call among the observed executions over all supported enzyme geometries, rotations and argument orders.")
LEVEL_NOTE = "trusts Biopython's enzyme table (site, fst5, size, ovhg attributes only) and the 80-line model mon/refmodel.py; inputs outside the model are counted, not judged"
RULE = ("generated: for every supported Type IIS geometry (one enzyme per distinct (site, cut offset, overhang length)) chains of "
        "1..min(6, cap) modules with pairwise distinct, non-palindromic, non-complementary overhangs, random target/backbone/"
        "placeholder contents with exactly one site per strand per plasmid, every plasmid independently rotated (60% hostile: origin "
        "inside a site, spacer, overhang or at the ends of the target), argument order permuted; registry: chains sampled from the "
        "overhang graph of each embedded registry (every vector; a generated GGAG/CGCT BsaI vector for Plant), expected product from "
        "cuts() on the real plasmids. Non-trivial = judged complete chain whose product was returned and compared; distinct = "
        "distinct (enzyme, input sequences, argument order).")
ASSUMPTIONS = [
    "supported enzyme = 5' overhang, non-palindromic, single-cut, unambiguous 5-7 nt site, cut downstream (DESIGN section 3)",
    "each plasmid carries exactly one forward and one reverse site; module targets >= 2 nt, vector backbones >= 2 nt",
    "product compared up to rotation, case-insensitively (case is C18's subject)",
]
FLOORS = {"c01_kit_vector_assemblies_judged": 60, "c01_judged": 300, "c01_products_compared": 300, "c01_registry_judged": 10, "geometries_seen": 15}
MUST_REACH = ["AbstractVector.assemble", "AssemblyManager._generate_assembly", "AbstractModule.target_sequence", "AbstractVector.target_sequence"]
NEEDS_REGISTRIES = True
BUDGET_S = {"quick": 900, "thorough": 7200}


def setup(tier):
    regs.items()


def cases(tier, seed):
    per = 40 if tier == "quick" else 6000
    names = gen.enzyme_names()
    out = _embedded.assembly_cases(seed, per * len(names), features=False, max_chain=6)
    out += _embedded.registry_assembly_cases(seed, per_vector=2 if tier == "quick" else 40)
    # the hand-written vector structures of the kits (and the YTK product) with generated inserts
    from . import C11
    for name, _, _, _ in C11.triples():
        for j in range(0, 20 if tier == "quick" else 1500, 10):
            out.append({"kind": "kit-triple", "triple": name, "from": j, "count": 10, "seed": seed})
    return out


def materialise(case):
    if case["kind"] == "assembly":
        return _embedded.materialise_assembly(case)
    return case


_mon = None


def worker_init(ctx, tier):
    global _mon
    strict = set()
    for name in gen.enzyme_names() + ["BsaI", "BsmBI", "BbsI", "BpiI"]:
        strict.update(gen.all_harness_classes(name))
    _mon = asmmon.AssembleMonitor(ctx, [asmmon.make_c01_judge(strict)])
    _mon.install()
    ctx._geoms = set()


def execute(mat, ctx):
    if mat["kind"] == "kit-triple":
        # C11's generator drives assemblies of kit vector classes; only the C01 judge installed on assemble() speaks here
        from . import C11
        from ..core import Ctx
        t = next(x for x in C11.triples() if x[0] == mat["triple"])
        for j in range(mat["from"], mat["from"] + mat["count"]):
            rng = gen.rng_for(mat["seed"], PROP, mat["triple"], j)
            before = ctx.counters["c01_judged"]
            _mon.tag = {"kind": "kit-triple", "triple": mat["triple"], "strict": True}
            try:
                C11.one_triple(Ctx("C11-as-workload"), *t, rng=rng)
            except RuntimeError:
                pass
            ctx.count("evaluations")
            if ctx.counters["c01_judged"] > before:
                ctx.count("c01_kit_vector_assemblies_judged")
        return
    ctx.count("evaluations")
    before = ctx.counters["c01_judged"]
    if mat["kind"] == "assembly-mat":
        _mon.tag = {"kind": "generated"}
        res = _embedded.run_assembly(mat, ctx)
        sig = ["gen", mat["enzyme"], mat["vector"]["seq"], [m["seq"] for m in mat["modules"]]]
        sample = {"kind": "generated", "enzyme": mat["enzyme"], "vector": mat["vector"]["seq"],
                  "modules": [m["seq"] for m in mat["modules"]], "overhangs": mat["overhangs"]}
    else:
        _mon.tag = {"kind": "registry", "strict": True}
        res = _embedded.run_registry_assembly(mat, ctx)
        sig = ["reg", mat["reg"], mat["vector"], mat["modules"], mat["rots"]]
        sample = {"kind": "registry", "registry": mat["reg"], "vector": mat["vector"] or "generated GGAG/CGCT", "modules": mat["modules"]}
    judged = ctx.counters["c01_judged"] > before
    if judged and mat["kind"] != "assembly-mat":
        ctx.count("c01_registry_judged")
    if not judged and mat["kind"] == "assembly-mat":
        ctx.violation("harness:generated-case-not-judged", "generated well-formed assembly was outside the monitor's model: %r" % (_mon.last.model,))
    if judged and res["outcome"] == "product":
        ctx.count("c01_products_compared")
        ctx.nontrivial(sig)
        m = _mon.last.model
        g = "%s/%d/%d" % m["geom"]
        if g not in ctx._geoms:
            ctx._geoms.add(g)
        sample["product_length"] = len(res["product"])
        ctx.sample(sample, cap=2)


def worker_fini(ctx, tier):
    pass


def finalize(agg, tier):
    geoms = agg["hists"].get("c01_geometry", {})
    agg["counters"]["geometries_seen"] = len(geoms)
    return {"enzyme_geometry_classes_seen": len(geoms)}

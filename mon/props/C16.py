"""C16 - DNA pattern search has exact IUPAC, circular and group-extraction semantics."""
import itertools

from .. import gen, regs
from ..monitors import SearchMonitor
from ..util import IUPAC, rot_left

PROP = "C16"
LEVEL = "exploration"
DESIGN_REF = "DESIGN.md section 4, C16"
TECHNIQUE = "runtime monitor (post-conditions on DNARegex.search and SeqMatch.group) against an independent back-tracking matcher"
LEVEL_TEXT = ("Every DNARegex.search / SeqMatch.group call made by the workload - driver searches (exhaustive letter table, "
              "exhaustive short targets, random patterns) and the searches the library itself performs when kit classes type "
              "registry plasmids at hostile rotations - is judged online against mon/rxmodel.py (no use of `re`). Held = no "
              "refuting call observed, with straddling and past-the-end group spans demonstrably exercised.")
LEVEL_NOTE = "trusts CPython, Biopython Seq/SeqRecord slicing, and the 100-line reference matcher mon/rxmodel.py with its hand-typed IUPAC table"
RULE = ("(i) exhaustive: 15 IUPAC codes x {A,C,G,T} x {upper,lower} x 4 target kinds, alone and embedded in a literal context; "
        "(ii) exhaustive: every target over {A,C,G} of length 1..6 (thorough: 1..8) - hence every placement of the origin - "
        "against a pool of patterns with capture groups of every length, greedy and lazy runs, nested groups, on 5 target kinds "
        "(Seq linear, Seq searched non-linearly, SeqRecord, SeqRecord searched non-linearly, CircularRecord), plus histories that reuse "
        "one regex object on one target object in alternating modes and after the record's sequence was replaced; (iii) random patterns from the grammar x random "
        "targets (mixed case) x random pos/endpos; (iv) embedded: all concrete kit classes typing instances of their structure at "
        "every rotation inside the flanks, and registry plasmids typed by their registry class at hostile rotations. "
        "Non-trivial = the search returned a match and every group was extracted and compared; distinct = distinct "
        "(pattern, target text, kind, pos, endpos)."
        " Second session: patterns opening with a self-overlapping literal of >= 4 letters on texts rich in overlapping copies of it; records annotated linear searched as non-linear.")
ASSUMPTIONS = [
    "pattern letters are upper-case IUPAC codes, groups and runs (the language used by every kit); 'either letter case' is the case of the nucleotides",
    "targets are over ACGT/acgt; 0 <= pos",
    "endpos bounds the start position (the documented 'requested range'), not the end of the match",
]
FLOORS = {"same_object_history_searches": 1000, "search_calls": 2000, "group_calls": 2000, "group_straddling": 50, "group_past_end": 20, "search_wrapped_matches": 50, "literal_first_matches": 200}
MUST_REACH = ["DNARegex.search", "SeqMatch.group"]
NEEDS_REGISTRIES = True
BUDGET_S = {"quick": 900, "thorough": 7200}
KINDS = ["seq-lin", "seq-circ", "rec-lin", "rec-circ", "circrec"]
# patterns that open with a literal of four or more letters which overlaps itself (as recognition sites in a structure do)
LITERAL_FIRST = ["ACACA(NN)G", "CGTCTCN(NNNN)", "AAAA(N)C", "GAGAG(N*?)T", "ATATAT(NN)G", "CGCGC(N+)A", "TCTCTC(N)A", "GGTCTCN(NNNN)(N*)",
                 "CACAC(N)(N)C", "TTTTT(NN)", "GCAGC(N*)GCTGC", "AACAA(S)", "CTCTCN(NN)G"]
POOL = ["AA(NN)", "(A)(N*)(C)", "(A)(N*?)(C)", "(N)", "(NN)(N)", "A(N(N)N)C", "((A)N*?)(G)", "(N+)(A)", "(N+?)(A)(N*)",
        "(NNN)(NNN)", "C(N*)(NN)A", "(S)(W*)(S)", "G(NNNN)", "(NNNNN)N", "(N)(N)(N)(N)", "A*(C)", "(R+)(Y+)"]


def setup(tier):
    regs.items()


def cases(tier, seed):
    out = [{"kind": "letters"}]
    maxlen = 6 if tier == "quick" else 8
    texts = []
    for L in range(1, maxlen + 1):
        for t in itertools.product("ACG", repeat=L):
            texts.append("".join(t))
    for j in range(0, len(texts), 40):
        out.append({"kind": "short", "texts": texts[j:j + 40]})
    nrand = 3000 if tier == "quick" else 800000
    for j in range(0, nrand, 100):
        out.append({"kind": "random", "seed": seed, "from": j, "count": 100})
    nlit = 2000 if tier == "quick" else 200000
    for j in range(0, nlit, 100):
        out.append({"kind": "literal-first", "seed": seed, "from": j, "count": 100})
    classes = gen.concrete_kit_classes()
    for c in classes:
        out.append({"kind": "kit-instance", "cls": gen.class_name(c), "seed": seed, "count": 2 if tier == "quick" else 40})
    its = regs.items()
    step = 6 if tier == "quick" else 1
    for j, (rname, key, cls, rec) in enumerate(its):
        if (j + seed) % step == 0:
            out.append({"kind": "registry", "reg": rname, "key": key, "seed": seed, "nrot": 6 if tier == "quick" else 40})
    if tier == "thorough":
        out.append({"kind": "repo-tests"})
    return out


def rand_pattern(rng):
    out = []
    depth = 0
    ngroups = 0
    for _ in range(rng.randint(1, 8)):
        r = rng.random()
        if r < 0.2 and ngroups < 4:
            out.append("(")
            depth += 1
            ngroups += 1
        elif r < 0.35 and depth and out[-1] != "(":
            out.append(")")
            depth -= 1
        elif r < 0.55:
            out.append(rng.choice("NNNNRYSWB") + rng.choice(["*", "*?", "+", "+?"]))
        else:
            out.append(rng.choice("ACGTACGTNRYSWKMBDHV"))
    if out and out[-1] == "(":
        out.append("N")
    out.append(")" * depth)
    return "".join(out).replace("()", "(N)")


def materialise(case):
    return case


_mon = None


def worker_init(ctx, tier):
    global _mon
    _mon = SearchMonitor(ctx)
    _mon.install()


def _target(kind, text):
    from Bio.Seq import Seq
    from Bio.SeqRecord import SeqRecord
    from moclo.record import CircularRecord

    if kind == "seq-lin":
        return Seq(text), {}
    if kind == "seq-circ":
        return Seq(text), {"linear": False}
    if kind == "rec-lin":
        return SeqRecord(Seq(text), "x"), {}
    if kind == "rec-circ":
        return SeqRecord(Seq(text), "x"), {"linear": False}
    if kind == "rec-annotated-linear-circ":
        # a record whose annotation says linear, searched as non-linear: "any target searched as non-linear" is a circle
        return SeqRecord(Seq(text), "x", annotations={"topology": "linear"}), {"linear": False}
    return CircularRecord(Seq(text), "x"), {}


def _same_object_history(ctx, pattern, text, other, rx_cache):
    """consecutive searches with ONE regex object on ONE target object: alternating linear / non-linear mode, and a
    SeqRecord whose .seq is replaced between two searches - each call is judged by the monitor on its own"""
    from Bio.Seq import Seq
    from Bio.SeqRecord import SeqRecord

    from moclo.record import CircularRecord
    rx = rx_cache[pattern]
    s = Seq(text)
    r = SeqRecord(Seq(text), "h")
    # (a CircularRecord is a circle whatever the flag says)
    for target in (s, r, CircularRecord(Seq(text), "c")):
        for lin in (True, False, True, False):
            ctx.count("evaluations")
            ctx.count("same_object_history_searches")
            m = rx.search(target, linear=lin)
            if m is not None:
                for g in range(m.match.re.groups + 1):
                    m.group(g)
    # an editable target (MutableSeq) changed in place between two searches: each search is about the text as it is then
    from Bio.Seq import MutableSeq
    e = SeqRecord(MutableSeq(text), "e")
    for lin in (False, True):
        rx.search(e, linear=lin)
    if text:
        i = (len(text) * 7 + len(other)) % len(text)
        e.seq[i] = "ACGT"[("ACGT".index(text[i].upper()) + 1) % 4] if text[i].upper() in "ACGT" else "A"
        for lin in (False, True):
            ctx.count("evaluations")
            ctx.count("same_object_history_searches")
            ctx.count("searches_after_edit_in_place")
            m = rx.search(e, linear=lin)
            if m is not None:
                for g in range(m.match.re.groups + 1):
                    m.group(g)
    r.seq = Seq(other)
    for lin in (False, True):
        ctx.count("evaluations")
        ctx.count("same_object_history_searches")
        m = rx.search(r, linear=lin)
        if m is not None:
            for g in range(m.match.re.groups + 1):
                m.group(g)


def _do_search(ctx, pattern, text, kind, pos=0, endpos=None, rx_cache={}):
    from moclo.regex import DNARegex

    if pattern not in rx_cache:
        rx_cache[pattern] = DNARegex(pattern)
    if kind == "history":
        return _same_object_history(ctx, pattern, text, pos, rx_cache)
    t, kw = _target(kind, text)
    if endpos is not None:
        kw["endpos"] = endpos
    ctx.count("evaluations")
    m = rx_cache[pattern].search(t, pos, **kw)
    if m is not None:
        ngroups = m.match.re.groups
        for g in range(ngroups + 1):
            m.group(g)
        ctx.nontrivial([pattern, text, kind, pos, endpos])
    return m


def execute(mat, ctx):
    kind = mat["kind"]
    if kind == "repo-tests":
        from . import _embedded
        _embedded.run_repo_tests_under_monitors(ctx, ["search"], PROP)
        return
    if kind == "letters":
        for code in sorted(IUPAC):
            for nuc in "ACGTacgt":
                for tk in KINDS:
                    m = _do_search(ctx, code, nuc, tk)
                    want = nuc.upper() in IUPAC[code]
                    ctx.count("letter_table_checks")
                    if (m is not None) != want:
                        ctx.violation("iupac-letter:%s" % code, "pattern letter %s %s nucleotide %r" % (code, "matches" if m else "does not match", nuc), code=code, nuc=nuc)
                    _do_search(ctx, "G(" + code + ")A", "g" + nuc + "A", tk)
        ctx.sample({"kind": "letters", "pairs": 15 * 8 * 4})
    elif kind == "short":
        for j, text in enumerate(mat["texts"]):
            for p in POOL:
                for tk in KINDS:
                    _do_search(ctx, p, text, tk)
                if j % 4 == 0:
                    _do_search(ctx, p, text, "history", pos=mat["texts"][(j + 7) % len(mat["texts"])])
        ctx.sample({"kind": "short", "texts": mat["texts"][:3], "patterns": POOL[:4]}, cap=1)
    elif kind == "random":
        for j in range(mat["from"], mat["from"] + mat["count"]):
            rng = gen.rng_for(mat["seed"], PROP, "random", j)
            p = rand_pattern(rng)
            n = rng.randint(1, 14)
            text = gen.rand_dna(rng, n, "ACGTacgt" if rng.random() < 0.3 else "ACG")
            tk = rng.choice(KINDS)
            pos = rng.choice([0, 0, 0, rng.randint(0, n)])
            endpos = rng.choice([None, None, rng.randint(0, n + 2)])
            m = _do_search(ctx, p, text, tk, pos, endpos)
            if j % 50 == 0:
                ctx.sample({"kind": "random", "pattern": p, "text": text, "target": tk, "pos": pos, "endpos": endpos,
                            "span": None if m is None else list(m.span(0))})
    elif kind == "literal-first":
        for j in range(mat["from"], mat["from"] + mat["count"]):
            rng = gen.rng_for(mat["seed"], PROP, "literal-first", j)
            p = rng.choice(LITERAL_FIRST)
            lit = p[: min(p.index("("), p.index("N") if "N" in p else len(p))]
            # texts rich in overlapping copies of the literal: runs over its own letters, a few strangers, whole copies pasted in
            n = rng.randint(len(lit), 26)
            alpha = "".join(sorted(set(lit))) * 4 + "ACGT"
            text = gen.rand_dna(rng, n, alpha)
            for _ in range(rng.randint(0, 2)):
                i = rng.randrange(len(text))
                cut = rng.randint(1, len(lit))
                text = (text[:i] + lit + lit[-cut:] + text[i:])[:30]
            if rng.random() < 0.2:
                text = text.lower() if rng.random() < 0.5 else text.swapcase()
            tk = rng.choice(KINDS + ["rec-annotated-linear-circ"])
            pos = rng.choice([0, 0, rng.randint(0, len(text))])
            endpos = rng.choice([None, None, rng.randint(0, len(text) + 2)])
            m = _do_search(ctx, p, text, tk, pos, endpos)
            ctx.count("literal_first_searches")
            if m is not None:
                ctx.count("literal_first_matches")
            if j % 100 == 0:
                ctx.sample({"kind": kind, "pattern": p, "text": text, "target": tk, "pos": pos, "endpos": endpos, "span": None if m is None else list(m.span(0))}, cap=2)
    elif kind == "kit-instance":
        from Bio.Seq import Seq
        from moclo.record import CircularRecord

        cls = gen.class_by_name(mat["cls"])
        for j in range(mat["count"]):
            rng = gen.rng_for(mat["seed"], PROP, mat["cls"], j)
            s = gen.instance(rng, cls.structure(), run_max=14) + gen.rand_dna(rng, rng.randint(2, 20))
            n = len(s)
            flank = 14
            for r in sorted(set(list(range(0, flank)) + list(range(n - 20 - flank, n)) + [rng.randrange(n) for _ in range(3)])):
                _typing(ctx, cls, CircularRecord(Seq(rot_left(s, r % n)), "inst"))
        ctx.sample({"kind": "kit-instance", "class": mat["cls"], "structure": cls.structure()}, cap=1)
    elif kind == "registry":
        from Bio.Seq import Seq
        from moclo.record import CircularRecord

        for rname, key, cls, rec in regs.items():
            if rname == mat["reg"] and key == mat["key"]:
                break
        else:
            raise RuntimeError("registry item vanished")
        rng = gen.rng_for(mat["seed"], PROP, "registry", key)
        s = str(rec.seq)
        n = len(s)
        ent = cls(CircularRecord(Seq(s), key))
        _typing(ctx, cls, ent.record)
        # hostile rotations need the span of the structure: read it from a plain search of the site with the string model
        site = cls.cutter.site
        from ..util import occurrences, rc

        anchors = occurrences(s, site) + occurrences(s, rc(site))
        rots = set()
        for a in anchors:
            for d in range(-12, 20):
                rots.add((a + d) % n)
        rots = sorted(rots)
        rng.shuffle(rots)
        for r in rots[: mat["nrot"]]:
            _typing(ctx, cls, CircularRecord(Seq(rot_left(s, r)), key))
        ctx.sample({"kind": "registry", "registry": rname, "key": key, "class": gen.class_name(cls), "length": n}, cap=1)


def _typing(ctx, cls, record):
    """what the library does with a record: validate, then read overhangs and target (search + group calls)"""
    from moclo import errors

    ent = cls(record)
    ctx.count("embedded_typings")
    try:
        if ent.is_valid():
            ent.overhang_start()
            ent.overhang_end()
            ent.target_sequence()
            ctx.count("embedded_valid")
    except errors.MocloError:
        pass

"""C02 - A plasmid has no origin: typing and assembly are rotation-invariant."""
from .. import gen, regs, refmodel, rxmodel
from ..monitors import wrap_method
from ..util import rot_left, canon, rc
from . import _embedded

PROP = "C02"
LEVEL = "exploration"
DESIGN_REF = "DESIGN.md section 4, C02"
TECHNIQUE = "metamorphic runtime monitor: observation tuples of the real classes on a record and on its rotations (string-rotated and >>-rotated), with a search hook classifying where the origin fell"
LEVEL_TEXT = ("For every record with a unique occurrence of a class's structure the tuple (accepted?, overhangs, target, placeholder) "
              "observed on the reference orientation is compared with the tuple observed through fresh entities on rotated copies - "
              "all rotations that put the origin inside the flanking structure, plus a sample (thorough: all n) - and assembly products "
              "are compared up to rotation across independent rotations of all inputs. A hook on DNARegex.search records, per case, "
              "whether the match really crossed the origin and which group held it; cases where it did not do not count.")
LEVEL_NOTE = "equality of observations is the oracle (no model needed); uniqueness of the structure occurrence is decided by mon/rxmodel.py, not by the code under test"
RULE = ("(i) generic module/vector classes for every supported geometry on constructed plasmids; (ii) all 85 concrete kit classes on "
        "instances of their own structure; (iii) dynamically created part classes with random IUPAC signatures; (iv) every registry "
        "plasmid under its registry class; rotated copies made by plain string rotation and, in a second pass, by the library's >>; "
        "(v) generated assemblies re-run with every input independently rotated. Records without a unique structure occurrence "
        "(reference matcher: exactly one matching start, spans independent of greedy/lazy preference) are skipped and counted. "
        "Non-trivial = on the rotated copy the match crossed the origin (observed end > length); distinct = distinct (class, sequence, rotation).")
ASSUMPTIONS = ["records over ACGT with a unique structure occurrence", "exceptions are compared by class"]
FLOORS = {"c02_comparisons": 3000, "c02_wrapped_matches": 1000, "c02_assembly_comparisons": 100, "c02_registry_items": 40}
MUST_REACH = ["DNARegex.search", "SeqMatch.group", "CircularRecord.__rshift__|CircularRecord.__lshift__"]
NEEDS_REGISTRIES = True
BUDGET_S = {"quick": 900, "thorough": 7200}


def setup(tier):
    regs.items()


def cases(tier, seed):
    out = []
    per = 3 if tier == "quick" else 120
    for c in gen.concrete_kit_classes():
        out.append({"kind": "kit", "cls": gen.class_name(c), "seed": seed, "count": per})
    for e in gen.enzyme_names():
        out.append({"kind": "generic", "enzyme": e, "seed": seed, "count": per})
        out.append({"kind": "userpart", "enzyme": e, "seed": seed, "count": per})
    its = regs.items()
    step = 4 if tier == "quick" else 1
    for j in range(len(its)):
        if (j + seed) % step == 0:
            out.append({"kind": "registry", "index": j, "seed": seed})
    out += [dict(c, kind="asm") for c in _embedded.assembly_cases(seed, 120 if tier == "quick" else 15000, features=False, rotate=False, max_chain=3)]
    return out


def materialise(case):
    return case


TIER = "quick"


_last = {}


def worker_init(ctx, tier):
    global TIER
    TIER = tier
    from moclo import regex

    def post(rx, a, kw, res, exc, token):
        _last["wrapped"] = False
        if res is not None:
            n = len(a[0]) if a else len(kw["string"])
            _last["wrapped"] = res.end() > n
            if _last["wrapped"]:
                where = "flank"
                for g in range(1, res.match.re.groups + 1):
                    s0, e0 = res.span(g)
                    if s0 < n < e0:
                        where = "inside-group-%d" % g
                    elif s0 == n or e0 == n:
                        where = "at-boundary-of-group-%d" % g if where == "flank" else where
                _last["where"] = where

    wrap_method(regex.DNARegex, "search", post)


def observe(cls, record):
    """the observation tuple C02 compares"""
    ent = cls(record)
    _last["wrapped"] = False
    try:
        if not ent.is_valid():
            return ("invalid",)
        out = ["valid", str(ent.overhang_start()).upper(), str(ent.overhang_end()).upper(), str(ent.target_sequence().seq).upper()]
        if hasattr(ent, "placeholder_sequence"):
            out.append(str(ent.placeholder_sequence().seq).upper())
        return tuple(out)
    except Exception as e:
        return ("raised", type(e).__name__)


def rotations_for(rng, n, anchors, tier, width=14):
    ks = set()
    for a in anchors:
        for d in range(-width, width + 1):
            ks.add((a + d) % n)
    if tier == "thorough" and n <= 400:
        ks.update(range(n))
    else:
        for _ in range(6):
            ks.add(rng.randrange(n))
    ks.discard(0)
    return sorted(ks)


def compare_rotations(ctx, cls, text, rng, tier, label, max_rot=None):
    from Bio.Seq import Seq
    from moclo.record import CircularRecord

    n = len(text)
    if set(text.upper()) - set("ACGT"):
        ctx.count("skipped_non_acgt")
        return
    try:
        uniq = rxmodel.unique_occurrence(cls.structure(), text.upper())
    except (KeyError, ValueError):
        ctx.count("skipped_pattern_outside_model")
        return
    if not uniq:
        ctx.count("skipped_no_unique_occurrence")
        ctx.hist("skipped_no_unique_occurrence_by", label)
        return
    # one plasmid in five carries a record-wide annotation whose value compares element-wise (a numpy profile): legal for
    # Biopython, and a trap for any code that merges or compares the annotations of two pieces of a record
    ann = None
    if (n + ord(text[0]) + ord(text[-1])) % 5 == 0:
        import numpy
        ann = {"gc_skew": numpy.arange(4) / 4.0, "molecule_type": "DNA"}
        ctx.count("c02_records_with_array_annotation")
    mkrec = lambda t: CircularRecord(Seq(t), "r", annotations=dict(ann) if ann else None)
    base = observe(cls, mkrec(text))
    ctx.hist("reference_observation", base[0])
    site = cls.cutter.site
    from ..util import occurrences

    anchors = occurrences(text, site) + [a + len(site) for a in occurrences(text, rc(site))]
    ks = rotations_for(rng, n, anchors, tier)
    if max_rot and len(ks) > max_rot:
        rng.shuffle(ks)
        ks = sorted(ks[:max_rot])
    # the same plasmid handed over as a plain SeqRecord that declares itself circular (what Bio.SeqIO returns): verdict and
    # overhangs at the rotations that put the origin inside the structure (a plain record cannot be rotated, so no target)
    from Bio.SeqRecord import SeqRecord

    def observe_plain(t):
        ent = cls(SeqRecord(Seq(t), "r", annotations={"topology": "circular"}))
        try:
            return ("valid", str(ent.overhang_start()).upper(), str(ent.overhang_end()).upper()) if ent.is_valid() else ("invalid",)
        except Exception as e:
            return ("raised", type(e).__name__)

    base_plain = observe_plain(text)
    if base_plain[:1] != base[:1]:
        ctx.violation("plain-circular-record-typed-differently", "%s: a plain SeqRecord declaring topology=circular is %s, the same plasmid as CircularRecord %s" % (
            cls.__name__, base_plain[0], base[0]), cls=cls.__name__, text=text if n < 700 else text[:700] + "...")
    for k in ks[:: max(1, len(ks) // 12)]:
        ctx.count("c02_plain_record_comparisons")
        got = observe_plain(rot_left(text, k))
        if got != base_plain:
            ctx.violation("rotation-changes-validity:plain-seqrecord:%s->%s" % (base_plain[0], got[0]),
                          "%s on a plain circular SeqRecord of %d nt: rotating left by %d changes the observation from %r to %r" % (cls.__name__, n, k, base_plain, got),
                          cls=cls.__name__, text=text if n < 700 else text[:700] + "...", k=k)
            break
    for k in ks:
        for how in ("string", "operator"):
            if how == "string":
                rec = mkrec(rot_left(text, k))
            else:
                rec = mkrec(text) << k
            ctx.count("evaluations")
            got = observe(cls, rec)
            ctx.count("c02_comparisons")
            if _last.get("wrapped"):
                ctx.count("c02_wrapped_matches")
                ctx.hist("origin_fell", _last.get("where"))
                ctx.nontrivial([cls.__name__, text, k, how])
            if got != base:
                what = "validity" if got[0] != base[0] else "values"
                fields = ["status", "overhang_start", "overhang_end", "target", "placeholder"]
                diff = [fields[i] for i in range(min(len(got), len(base))) if got[i] != base[i]] if what == "values" else [base[0] + "->" + got[0]]
                ctx.violation("rotation-changes-%s:%s:%s" % (what, how, ",".join(diff)),
                              "%s on a record of %d nt: rotating left by %d (%s) changes the observation from %r to %r (origin %s)" % (
                                  cls.__name__, n, k, how, tuple(str(x)[:40] for x in base), tuple(str(x)[:40] for x in got), _last.get("where")),
                              cls=cls.__name__, structure=cls.structure(), text=text if n < 700 else text[:700] + "...", k=k, how=how)


def execute(mat, ctx):
    kind = mat["kind"]
    if kind in ("kit", "generic", "userpart"):
        if kind == "kit":
            classes = [gen.class_by_name(mat["cls"])]
        elif kind == "generic":
            classes = list(gen.generic_classes(mat["enzyme"]))
            # user-defined classes whose hand-written structure spells the same language with `+` instead of `*`
            for base in list(classes):
                pat = base.structure().replace("NN*", "N+")
                if pat != base.structure():
                    classes.append(type(str(base.__name__ + "Plus"), (base,), {"structure": staticmethod(lambda pat=pat: pat)}))
        else:
            classes = None
        for j in range(mat["count"]):
            rng = gen.rng_for(mat["seed"], PROP, kind, mat.get("cls") or mat.get("enzyme"), j)
            if kind == "userpart":
                from moclo.core import AbstractPart

                V, M = gen.generic_classes(mat["enzyme"])
                k = refmodel.geometry(gen.enzyme(mat["enzyme"]))[2]
                sig = tuple("".join(rng.choice("ACGTNRYSWKMBDHV" if rng.random() < 0.3 else "ACGT") for _ in range(k)) for _ in range(2))
                role = rng.choice([V, M])
                cls = type(str("UserPart%d" % j), (AbstractPart, role), {"cutter": gen.enzyme(mat["enzyme"]), "signature": sig})
                classes = [cls]
            for cls in classes:
                text = None
                for _ in range(20):
                    t = gen.instance(rng, cls.structure(), run_max=30) + gen.rand_dna(rng, rng.randint(2, 30))
                    if refmodel.count_sites(t, cls.cutter.site) == 2:
                        text = t
                        break
                if text is None:
                    ctx.count("skipped_cannot_build_instance")
                    continue
                compare_rotations(ctx, cls, rot_left(text, rng.randrange(len(text))), rng, TIER, kind)
                # own stream: plasmids that are nothing but the structure (no backbone at all, or 1..3 nt), clean or with a
                # third site of the cutter so close to an end of the body that the structure still occurs exactly once
                # (the class rejects those - at every rotation)
                r2 = gen.rng_for(mat["seed"], PROP, kind, mat.get("cls") or mat.get("enzyme"), j, cls.__name__, "bare")
                t = gen.instance(r2, cls.structure(), run_min=2, run_max=30) + gen.rand_dna(r2, r2.choice([0, 0, 0, 1, 3]))
                if r2.random() < 0.7:
                    try:
                        sp = rxmodel.search(cls.structure(), t.upper(), 0, None, True)
                    except (KeyError, ValueError, IndexError):
                        sp = None
                    if sp is not None and len(sp) > 2 and sp[2] is not None:
                        a, b = sp[2]
                        w = r2.choice([cls.cutter.site, rc(cls.cutter.site)])
                        at = a + r2.randint(0, 6) if r2.random() < 0.5 else max(a, b - r2.randint(0, 6))
                        t = t[:at] + w + t[at:]
                        ctx.count("c02_bare_structures_with_third_site")
                ctx.count("c02_bare_structures")
                compare_rotations(ctx, cls, t, r2, TIER, kind + ":bare")
        ctx.sample({"kind": kind, "class": mat.get("cls") or mat.get("enzyme")}, cap=2)
        return
    if kind == "registry":
        rname, key, cls, rec = regs.items()[mat["index"]]
        rng = gen.rng_for(mat["seed"], PROP, "registry", key)
        before = ctx.counters["c02_comparisons"]
        compare_rotations(ctx, cls, str(rec.seq), rng, "quick", "registry:" + rname, max_rot=24 if TIER == "quick" else 200)
        if ctx.counters["c02_comparisons"] > before:
            ctx.count("c02_registry_items")
        ctx.sample({"kind": "registry", "registry": rname, "key": key, "class": gen.class_name(cls), "length": len(rec)}, cap=1)
        return
    # assemblies: every input independently rotated
    from Bio.Seq import Seq
    from moclo.record import CircularRecord

    amat = _embedded.materialise_assembly(dict(mat, kind="assembly"))
    V, M = gen.generic_classes(amat["enzyme"])
    rng = gen.rng_for(mat["seed"], PROP, "asm", mat["i"])
    texts = [amat["vector"]["seq"]] + [m["seq"] for m in amat["modules"]]

    def product(rots, how):
        recs = []
        for t, r in zip(texts, rots):
            recs.append(CircularRecord(Seq(rot_left(t, r)), "x") if how == "string" else (CircularRecord(Seq(t), "x") << r))
        try:
            import warnings
            with warnings.catch_warnings():
                warnings.simplefilter("ignore")
                return canon(str(V(recs[0]).assemble(*[M(r) for r in recs[1:]]).seq))
        except Exception as e:
            return "raised " + type(e).__name__

    base = product([0] * len(texts), "string")
    geom = refmodel.geometry(gen.enzyme(amat["enzyme"]))
    width = len(geom[0]) + geom[1] + geom[2] + 2
    for trial in range(4):
        rots = []
        for t in texts:
            n = len(t)
            rots.append(rng.choice([rng.randrange(n), rng.randrange(min(n, width)), (n - rng.randrange(min(n, width))) % n]))
        for how in ("string", "operator"):
            ctx.count("evaluations")
            got = product(rots, how)
            ctx.count("c02_assembly_comparisons")
            if got != base:
                ctx.violation("rotation-changes-assembly:%s" % how,
                              "%s assembly of %d module(s): rotating the inputs left by %s (%s) changes the product from %s to %s" % (
                                  amat["enzyme"], len(texts) - 1, rots, how, base[:60], got[:60]), enzyme=amat["enzyme"], texts=texts, rots=rots)
    # the same with annotated inputs: the features a product carries (type, identifier, qualifiers and the nucleotides each
    # reads 5'->3' along its own strand) do not depend on where the inputs' origins were
    from . import C12
    from ..denote import denote
    k = geom[2]
    rf = gen.rng_for(mat["seed"], PROP, "asm-features", mat["i"])
    specs = []
    for sp in [amat["vector"]] + amat["modules"]:
        sp = dict(sp)
        sp["features"] = C12._inner_features(rf, sp, k)
        for j, f in enumerate(sp["features"]):
            if rf.random() < 0.6:
                f["fid"] = "%s_feat%04d" % (sp["id"], j)          # identifiers as annotation pipelines assign them
        sp.pop("refs", None)
        specs.append(sp)
    # a between-bases annotation (GenBank 7^8, a cut-site mark) exactly where each module's upstream overhang begins
    for sp in specs[1:]:
        fs0 = sp["built"]["frag_start_unrotated"]
        if sp["built"]["rot_left"] == 0:
            sp["features"] = sp["features"] + [{"type": "misc_feature", "parts": [[fs0, fs0, 1]], "quals": {"uid": [sp["id"] + ".cutmark"]}}]
    # a vector annotation that runs from the last bases of the backbone into the downstream fusion site: it is not inside the
    # retained fragment, so no product carries it - at any origin
    vsp = specs[0]
    nv = len(vsp["seq"])
    fe = (vsp["built"]["frag_start_unrotated"] + vsp["built"]["frag_len"]) % nv
    if vsp["built"]["rot_left"] == 0 and vsp["built"]["frag_len"] > k + 4:
        a0 = (fe - 3) % nv
        edge = [[a0, a0 + 5, rf.choice([1, -1])]]
        vsp["features"] = vsp["features"] + [{"type": "misc_feature", "parts": _embedded._split_wrapping(rf, gen.rotate_parts(edge, 0, nv), nv),
                                              "quals": {"uid": [vsp["id"] + ".edge"]}}]
    if any(sp["features"] for sp in specs):
        comp = {"A": "T", "C": "G", "G": "C", "T": "A"}

        def carried(prod):
            text = str(prod.seq).upper()
            out = []
            for f in prod.features:
                u = f.qualifiers.get("uid")
                if u:
                    out.append((f.type, f.id, u[0], "".join(text[p] if st != -1 else comp[text[p]] for p, st in denote(f.location, len(text)) if not isinstance(p, tuple))))
            return sorted(out)

        def annotated(rots, how):
            recs = []
            for sp, r in zip(specs, rots):
                recs.append(gen.make_record(_embedded._rotate_spec(rf, sp, r)) if how == "string" else (gen.make_record(sp) << r))
            import warnings
            with warnings.catch_warnings():
                warnings.simplefilter("ignore")
                try:
                    return carried(V(recs[0]).assemble(*[M(r) for r in recs[1:]]))
                except Exception as e:
                    return "raised " + type(e).__name__

        base_f = annotated([0] * len(specs), "string")
        for trial in range(3):
            rots = [rf.choice([rf.randrange(len(sp["seq"])), rf.randrange(min(len(sp["seq"]), width)), 0, sp["built"]["frag_start_unrotated"] % len(sp["seq"]),
                               (len(sp["seq"]) - rf.randrange(1, 6)) % len(sp["seq"]), (len(sp["seq"]) - rf.randrange(1, 6)) % len(sp["seq"])]) for sp in specs]
            for how in ("string", "operator"):
                ctx.count("evaluations")
                ctx.count("c02_annotated_assembly_comparisons")
                got_f = annotated(rots, how)
                if got_f != base_f:
                    ctx.violation("rotation-changes-product-features:%s" % how, "%s assembly of %d module(s): with the inputs rotated left by %s (%s) the product carries %s, unrotated %s" % (
                        amat["enzyme"], len(specs) - 1, rots, how, str(got_f)[:200], str(base_f)[:200]), enzyme=amat["enzyme"], rots=rots)
                    break
    ctx.nontrivial(["asm", amat["enzyme"], texts])

"""C17 - Validation is total and failures are always reported as MoClo errors."""
from .. import gen, refmodel
from ..monitors import wrap_method
from ..util import rot_left, rc

PROP = "C17"
LEVEL = "exploration"
DESIGN_REF = "DESIGN.md section 4, C17"
TECHNIQUE = "runtime monitor: exception-class post-conditions on is_valid / overhang_* / target_sequence / placeholder_sequence / assemble under a fuzzing workload"
LEVEL_TEXT = ("Wrappers on the validation and extraction methods of every entity and on assemble() record the class of whatever "
              "escapes (BaseException) and pass it on; is_valid must return a bool and never raise, the extraction methods of an "
              "invalid entity must raise InvalidSequence, assemble must end with a product or a MocloError. The workload is a fuzzer "
              "over all 85 kit classes and generic classes for every geometry.")
LEVEL_NOTE = "trusts nothing but the exception classes themselves; records are CircularRecords over Seq of length >= 1"
RULE = ("per class: uniform ACGT strings (length 1..80), strings over the 15-letter IUPAC alphabet in both cases, very short records "
        "(1..6), own structure instances, other classes' instances, every-position single-letter corruptions of an instance (5 "
        "replacement letters incl. N and lower case; thorough: all positions), fully lower-cased instances, instances with an extra "
        "site; assemblies of 1..4 records drawn from pools of valid and invalid records of the same kit; complete chains of 1..6 modules with "
        "each link in turn taken away or replaced by a non-module, chains whose last link leads back into the chain (a closed loop), complete chains "
        "supplied together with 6..9 uninvolved modules, each under the warning filters ignore / error / always. "
        "Non-trivial = is_valid returned False and all extraction methods were then exercised, or an assembly mixing valid and invalid "
        "records was run; distinct = distinct (class, sequence).")
ASSUMPTIONS = ["records are CircularRecords over Seq, length >= 1, letters from the IUPAC alphabet in either case",
               "a documented MoClo exception whose str()/repr() itself raises counts as an internal error (it surfaces when the failure is logged)"]
FLOORS = {"c17_is_valid_calls": 5000, "c17_invalid_entities_probed": 1500, "c17_assemblies": 300, "c17_assemblies_failed": 100, "c17_assemblies_succeeded": 30, "c17_broken_chain_assemblies": 400, "c17_loop_assemblies": 100, "c17_library_assemblies": 30}
MUST_REACH = ["StructuredRecord.is_valid", "AbstractVector.assemble"]
BUDGET_S = {"quick": 900, "thorough": 7200}
IUP = "ACGTRYSWKMBDHVN"
MODES = ["random", "iupac", "short", "own", "other", "mutant", "lower", "extra-site"]


def cases(tier, seed):
    out = []
    per = 80 if tier == "quick" else 10000
    for c in gen.concrete_kit_classes():
        out.append({"kind": "kit", "cls": gen.class_name(c), "seed": seed, "count": per})
        out.append({"kind": "corruptions", "cls": gen.class_name(c), "seed": seed, "all": tier == "thorough"})
    for e in gen.enzyme_names():
        out.append({"kind": "generic", "enzyme": e, "seed": seed, "count": per})
    for j in range(0, 600 if tier == "quick" else 120000, 20):
        out.append({"kind": "assemblies", "from": j, "count": 20, "seed": seed})
    for j in range(0, 160 if tier == "quick" else 30000, 10):
        out.append({"kind": "broken-chains", "from": j, "count": 10, "seed": seed})
    return out


def materialise(case):
    return case


def worker_init(ctx, tier):
    from moclo import errors
    from moclo.core._structured import StructuredRecord
    from moclo.core.modules import AbstractModule
    from moclo.core.vectors import AbstractVector

    def wit(ent):
        s = str(ent.record.seq)
        return dict(cls=type(ent).__name__, seq=s if len(s) < 500 else s[:500] + "...", length=len(s))

    def sstr(exc):
        try:
            return str(exc)
        except Exception as e2:
            return "<str() raised %s>" % type(e2).__name__

    def printable(exc, where, **w):
        """a documented MoClo exception that cannot be rendered surfaces as an internal error the moment the user logs it"""
        ctx.count("c17_moclo_exceptions_rendered")
        for f in (str, repr):
            try:
                f(exc)
            except Exception as e2:
                ctx.violation("moclo-exception-cannot-be-rendered:%s:%s" % (type(exc).__name__, type(e2).__name__),
                              "%s raised %s, and %s() of that exception raises %s: %s" % (where, type(exc).__name__, f.__name__, type(e2).__name__, str(e2)[:120]), **w)
                return

    def post_valid(ent, a, kw, res, exc, token):
        ctx.count("c17_is_valid_calls")
        if exc is not None:
            ctx.violation("is_valid-raises:%s" % type(exc).__name__, "%s(record).is_valid() raised %s: %s" % (
                type(ent).__name__, type(exc).__name__, sstr(exc)[:200]), **wit(ent))
        elif res is not True and res is not False:
            ctx.violation("is_valid-not-bool", "%s(record).is_valid() returned %r" % (type(ent).__name__, res), **wit(ent))
        else:
            ent._verif_valid = res

    wrap_method(StructuredRecord, "is_valid", post_valid)

    def post_access(name):
        def post(ent, a, kw, res, exc, token):
            ctx.count("c17_accessor_calls")
            valid = getattr(ent, "_verif_valid", None)
            if exc is not None and isinstance(exc, errors.InvalidSequence):
                printable(exc, "%s.%s()" % (type(ent).__name__, name), **wit(ent))
            if exc is not None and not isinstance(exc, errors.InvalidSequence):
                ctx.violation("accessor-raises:%s:%s" % (name, type(exc).__name__),
                              "%s.%s() raised %s (%s) instead of returning or raising InvalidSequence" % (
                                  type(ent).__name__, name, type(exc).__name__, sstr(exc)[:160]), **wit(ent))
            elif valid is False and exc is None:
                ctx.violation("accessor-returns-on-invalid:%s" % name, "%s.%s() returned %r although is_valid() is False" % (
                    type(ent).__name__, name, str(res)[:60]), **wit(ent))
            elif valid is True and exc is not None:
                ctx.violation("accessor-raises-on-valid:%s" % name, "%s.%s() raised %s although is_valid() is True" % (
                    type(ent).__name__, name, type(exc).__name__), **wit(ent))
        return post

    for cls, names in ((AbstractModule, ("overhang_start", "overhang_end", "target_sequence")),
                       (AbstractVector, ("overhang_start", "overhang_end", "target_sequence", "placeholder_sequence"))):
        for n in names:
            wrap_method(cls, n, post_access(n))

    def post_assemble(vec, a, kw, res, exc, token):
        ctx.count("c17_assemblies")
        if exc is not None:
            ctx.count("c17_assemblies_failed")
            ctx.hist("assemble_error", type(exc).__name__)
            if not isinstance(exc, errors.MocloError):
                ctx.violation("assemble-raises:%s" % type(exc).__name__, "assemble() of %s with %s ended with %s: %s" % (
                    type(vec).__name__, [type(m).__name__ for m in a], type(exc).__name__, sstr(exc)[:200]),
                    vector=str(vec.record.seq)[:400], modules=[str(m.record.seq)[:400] for m in a])
            else:
                printable(exc, "assemble() of %s" % type(vec).__name__, vector=str(vec.record.seq)[:400], modules=[str(m.record.seq)[:400] for m in a])
        else:
            ctx.hist("assemble_error", "product")

    wrap_method(AbstractVector, "assemble", post_assemble)
    # "ends": a chain walk that stops consuming modules is aborted on logical steps (an exception the library cannot swallow)
    from .. import asmmon
    asmmon.install_walk_guard(ctx)


def _entity(cls, text):
    from Bio.Seq import Seq
    from moclo.record import CircularRecord

    # record ids as labs write them, including characters that mean something to formatting routines
    ids = ["fz", "fz", "pL0-{GFP}", "construct_{1}", "lib}2019", "{", "100%s", "50%", "two words", "", "{0.seq}", "\\N{DNA}"]
    return cls(CircularRecord(Seq(text), ids[(len(text) * 31 + ord(text[0]) + ord(text[-1])) % len(ids)]))


def probe(ctx, cls, text, mode):
    ctx.count("evaluations")
    ent = _entity(cls, text)
    try:
        v = ent.is_valid()
    except Exception:
        return  # recorded by the monitor
    ctx.hist("fuzz", "%s:%s" % (mode, v))
    # the same entity asked again, then asked for its overhangs/target: the answers must stay consistent
    try:
        v2 = ent.is_valid()
        if v2 is not v:
            ctx.violation("is_valid-changes-on-second-call:%s->%s" % (v, v2), "%s(record).is_valid() answered %r and then %r on the same object" % (cls.__name__, v, v2),
                          cls=cls.__name__, seq=text[:500])
        for n in ("overhang_start", "target_sequence"):
            try:
                getattr(ent, n)()      # judged by the accessor monitor against the first verdict
            except Exception:
                pass
    except Exception:
        pass
    names = ["overhang_start", "overhang_end", "target_sequence"] + (["placeholder_sequence"] if hasattr(ent, "placeholder_sequence") else [])
    for n in names:
        e2 = _entity(cls, text)
        e2._verif_valid = v
        try:
            getattr(e2, n)()
        except Exception:
            pass
    if v is False:
        ctx.count("c17_invalid_entities_probed")
        ctx.nontrivial([cls.__name__, text])


def fuzz_text(rng, cls, others, mode):
    if mode == "random":
        return gen.rand_dna(rng, rng.randint(1, 80))
    if mode == "iupac":
        return gen.rand_dna(rng, rng.randint(1, 60), IUP + IUP.lower())
    if mode == "short":
        return gen.rand_dna(rng, rng.randint(1, 6), IUP)
    src = cls if mode != "other" else rng.choice(others)
    s = gen.instance(rng, src.structure(), run_max=12) + gen.rand_dna(rng, rng.randint(0, 20))
    if mode == "extra-site":
        i = rng.randrange(len(s))
        st = cls.cutter.site
        s = s[:i] + rng.choice([st, rc(st)]) + s[i:]
    s = rot_left(s, rng.randrange(len(s)))
    if mode == "mutant":
        i = rng.randrange(len(s))
        s = s[:i] + rng.choice(IUP + "acgtn") + s[i + 1:]
    if mode == "lower":
        s = s.lower()
    return s


def execute(mat, ctx):
    kind = mat["kind"]
    classes = gen.concrete_kit_classes()
    if kind in ("kit", "generic"):
        targets = [gen.class_by_name(mat["cls"])] if kind == "kit" else list(gen.generic_classes(mat["enzyme"]))
        rng = gen.rng_for(mat["seed"], PROP, kind, mat.get("cls") or mat.get("enzyme"))
        for cls in targets:
            others = [c for c in classes if c is not cls]
            for j in range(mat["count"] // len(targets)):
                mode = MODES[j % len(MODES)]
                probe(ctx, cls, fuzz_text(rng, cls, others, mode), mode)
        ctx.sample({"kind": kind, "class": mat.get("cls") or mat.get("enzyme"), "modes": MODES}, cap=2)
        return
    if kind == "corruptions":
        cls = gen.class_by_name(mat["cls"])
        rng = gen.rng_for(mat["seed"], PROP, "corr", mat["cls"])
        s = gen.instance(rng, cls.structure(), run_max=6) + gen.rand_dna(rng, 6)
        positions = range(len(s)) if mat["all"] else sorted(rng.sample(range(len(s)), min(len(s), 12)))
        for i in positions:
            for letter in ("N", "n", "R", rng.choice("acgt"), rng.choice([x for x in "ACGT" if x != s[i]])):
                probe(ctx, cls, s[:i] + letter + s[i + 1:], "corruption")
        ctx.sample({"kind": "corruptions", "class": mat["cls"], "instance": s}, cap=1)
        return
    if kind == "broken-chains":
        from .. import asmmon
        # complete chains of 1..6 modules from which one link is taken away (first, middle or last), or in which one link is
        # replaced by a record that is not a module at all: every such call must end with a documented MoClo error
        import warnings
        from . import _embedded

        for j in range(mat["from"], mat["from"] + mat["count"]):
            rng = gen.rng_for(mat["seed"], PROP, "broken", j)
            ename = rng.choice(gen.enzyme_names())
            amat = _embedded.materialise_assembly({"kind": "assembly", "i": j, "seed": mat["seed"], "enzyme": ename,
                                                   "opts": {"features": False, "max_chain": 6 if j % 4 == 0 else 4}})
            V, M = gen.generic_classes(ename)
            vt = amat["vector"]["seq"]
            mts = [m["seq"] for m in amat["modules"]]
            for drop in range(len(mts)):
                for how in ("dropped", "replaced"):
                    rest = mts[:drop] + mts[drop + 1:] if how == "dropped" else mts[:drop] + [gen.rand_dna(rng, rng.randint(20, 60))] + mts[drop + 1:]
                    if not rest:
                        continue
                    ctx.count("evaluations")
                    ctx.count("c17_broken_chain_assemblies")
                    with warnings.catch_warnings():
                        warnings.simplefilter("ignore")
                        try:
                            _entity(V, vt).assemble(*[_entity(M, t) for t in rest])       # judged by the monitor
                            ctx.count("c17_assemblies_succeeded")
                        except Exception:
                            pass
            # the chain runs into a closed loop of overhangs that never reaches the vector's upstream overhang (the last link
            # leads back to an earlier junction), and: a complete chain handed over together with a whole library of 6..9
            # valid modules that take no part in it
            geom = refmodel.geometry(gen.enzyme(ename))
            ovs = amat["overhangs"]
            chain_texts = [mts[i] for i in amat["chain"]]        # module texts in chain order
            scenarios = []
            try:
                back = rng.randrange(len(chain_texts))            # the loop closes on the start overhang of this link
                loop = gen.build_module(rng, geom, ovs[len(chain_texts) - 1], ovs[back], rng.randint(2, 12), rng.randint(0, 10))["seq"]
                scenarios.append(("loop", chain_texts[:-1] + [loop]))
                spare = []
                for o in gen.gen_overhangs(rng, geom[2], 2 * rng.randint(6, 9), forbid=(geom[0], rc(geom[0]))):
                    spare.append(o)
                used = set(ovs) | {rc(o) for o in ovs}
                spare = [o for o in spare if o not in used]
                lib = [gen.build_module(rng, geom, spare[2 * q], spare[2 * q + 1], rng.randint(2, 12), rng.randint(0, 10))["seq"] for q in range(len(spare) // 2)]
                if len(lib) >= 6:
                    scenarios.append(("library", chain_texts + lib))
            except RuntimeError:
                pass
            # the same module *object* handed over twice (sampling with replacement, mods + mods): tolerated, not an internal error
            for rep in range(2):
                ents = [_entity(M, t) for t in (chain_texts if rep == 0 else chain_texts[:-1])]
                if not ents:
                    continue
                ents = ents + [ents[rng.randrange(len(ents))]]
                rng.shuffle(ents)
                ctx.count("evaluations")
                ctx.count("c17_repeated_entity_assemblies")
                with warnings.catch_warnings():
                    warnings.simplefilter("ignore")
                    try:
                        _entity(V, vt).assemble(*ents)       # judged by the monitor
                        ctx.count("c17_assemblies_succeeded")
                    except (Exception, asmmon.RunawayWalk):
                        pass
            for what, texts in scenarios:
                order = list(texts)
                rng.shuffle(order)
                for filt in ("ignore", "error", "always"):
                    ctx.count("evaluations")
                    ctx.count("c17_%s_assemblies" % what)
                    with warnings.catch_warnings(record=True):
                        warnings.simplefilter(filt)
                        try:
                            _entity(V, vt).assemble(*[_entity(M, t) for t in order])       # judged by the monitor
                            ctx.count("c17_assemblies_succeeded")
                        except (Exception, asmmon.RunawayWalk):
                            pass
            ctx.nontrivial(["broken-chain", ename, vt, mts])
        ctx.sample({"kind": kind, "from": mat["from"]}, cap=1)
        return
    # assemblies mixing valid and invalid records
    import warnings

    from moclo.core.vectors import AbstractVector
    vectors = [c for c in classes if issubclass(c, AbstractVector)]
    modules = [c for c in classes if not issubclass(c, AbstractVector)]
    for j in range(mat["from"], mat["from"] + mat["count"]):
        rng = gen.rng_for(mat["seed"], PROP, "asm", j)
        ctx.count("evaluations")
        if rng.random() < 0.4:
            # a well-formed chain in which each record is, with probability 0.3, replaced by a fuzzed one
            from . import _embedded
            ename = rng.choice(gen.enzyme_names())
            amat = _embedded.materialise_assembly({"kind": "assembly", "i": j, "seed": mat["seed"], "enzyme": ename, "opts": {"features": False}})
            V, M = gen.generic_classes(ename)
            texts = [amat["vector"]["seq"]] + [m["seq"] for m in amat["modules"]]
            # every documented error path gets its turn: an extra module sharing a start overhang with a supplied one, or
            # starting with the reverse complement of one (DuplicateModules, both causes), or chaining nowhere (UnusedModules)
            twist = rng.choice(["none", "none", "same-start", "rc-start", "unrelated", "two-unrelated"])
            if twist != "none":
                geom = refmodel.geometry(gen.enzyme(ename))
                ovs = amat["overhangs"]
                try:
                    if twist == "same-start":
                        o5 = rng.choice(ovs[:-1])
                    elif twist == "rc-start":
                        o5 = rc(rng.choice(ovs[:-1]))
                    else:
                        o5 = gen.gen_overhangs(rng, geom[2], 1, forbid=(geom[0], rc(geom[0])))[0]
                    o3 = gen.gen_overhangs(rng, geom[2], 1, forbid=(geom[0], rc(geom[0])))[0]
                    texts.append(gen.build_module(rng, geom, o5, o3, rng.randint(2, 12), rng.randint(0, 10))["seq"])
                    if twist == "two-unrelated":
                        extra = gen.gen_overhangs(rng, geom[2], 2, forbid=(geom[0], rc(geom[0])))
                        texts.append(gen.build_module(rng, geom, extra[0], extra[1], rng.randint(2, 12), rng.randint(0, 10))["seq"])
                    ctx.hist("assembly_twist", twist)
                except RuntimeError:
                    pass
            modes = []
            for t in range(len(texts)):
                if rng.random() < 0.3:
                    m = rng.choice(["random", "iupac", "mutant", "lower", "short", "extra-site"])
                    texts[t] = fuzz_text(rng, V if t == 0 else M, classes, m) if m != "lower" else texts[t].lower()
                    modes.append(m)
                else:
                    modes.append("well-formed")
            with warnings.catch_warnings():
                warnings.simplefilter("ignore")
                try:
                    _entity(V, texts[0]).assemble(*[_entity(M, t) for t in texts[1:]])
                    ctx.count("c17_assemblies_succeeded")
                except Exception:
                    pass
            ctx.nontrivial(["asm-chain", ename, texts])
            if j % 20 == 0:
                ctx.sample({"kind": "assembly-chain", "enzyme": ename, "record_modes": modes}, cap=3)
            continue
        if rng.random() < 0.5:
            ename = rng.choice(gen.enzyme_names())
            V, M = gen.generic_classes(ename)
            mcls = [M] * rng.randint(1, 4)
        else:
            V = rng.choice(vectors)
            same = [m for m in modules if m.cutter is V.cutter] or modules
            mcls = [rng.choice(same) for _ in range(rng.randint(1, 4))]

        def rec_for(cls):
            mode = rng.choice(["own", "own", "own", "random", "iupac", "mutant", "lower", "short", "other"])
            return fuzz_text(rng, cls, classes, mode), mode

        vt, vm = rec_for(V)
        ms = [rec_for(c) for c in mcls]
        with warnings.catch_warnings():
            warnings.simplefilter("ignore")
            try:
                _entity(V, vt).assemble(*[_entity(c, t) for c, (t, _) in zip(mcls, ms)])
            except Exception:
                pass
        ctx.nontrivial(["asm", V.__name__, vt, [t for t, _ in ms]])
        if j % 20 == 0:
            ctx.sample({"kind": "assembly", "vector_class": V.__name__, "vector_mode": vm, "module_classes": [c.__name__ for c in mcls], "module_modes": [m for _, m in ms]}, cap=3)

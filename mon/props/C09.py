"""C09 - The product records its provenance and is a complete GenBank record."""
import warnings

from .. import gen, regs, asmmon, refmodel
from ..util import rc
from . import _embedded

PROP = "C09"
LEVEL = "exploration"
DESIGN_REF = "DESIGN.md section 4, C09"
TECHNIQUE = "runtime monitor (post-condition on AbstractVector.assemble): provenance tiling / verbatim-source oracle and an in-memory GenBank write+read round trip"
LEVEL_TEXT = ("Each assemble() call of the workload is intercepted and the product judged: CircularRecord with circular topology, requested "
              "id and name, comment naming the vector and every supplied module, exactly one generated source feature per retained "
              "fragment, these tiling the product (coverage vector all ones), each covering text that occurs verbatim in the plasmid it "
              "names, and Bio.SeqIO GenBank write+read preserving sequence, topology and the multiset of (type, parts, strand). "
              "Two-level compositions check that inherited provenance features stay nested inside the outer ones.")
LEVEL_NOTE = "trusts Biopython's GenBank writer/parser (None strand is read back as +1 and compared as such)"
RULE = ("annotated generated assemblies over every supported geometry (as C08) with random GenBank-legal ids/names (1..16 chars of "
        "[A-Za-z0-9_]), with and without unused extra modules; registry assemblies; two-level compositions: k level-0 assemblies over "
        "one enzyme whose products (embedding the next level's sites by construction) are re-used as modules of a level-1 assembly over "
        "another enzyme. Non-trivial = product returned, provenance features tiled and the GenBank round trip compared; distinct = distinct input sets."
        " Second session: chain neighbours that share an id and name (also the default 'assembly'), input ids outside ASCII.")
ASSUMPTIONS = ["ids are GenBank-legal (<= 16 characters of [A-Za-z0-9_]) or, now and then, empty (then no GenBank round trip is required); names are 0..28 such characters (current GenBank/Biopython accept long LOCUS names)", "the GenBank format cannot express 'unstranded': None is compared as +1"]
FLOORS = {"c09_renamed_after_wrapping": 50, "c09_with_unused_module": 50, "c09_judged": 400, "c09_genbank_roundtrips": 400, "c09_fragment_counts_checked": 300, "c09_inner_provenance_checked": 50, "c09_registry_products": 8}
MUST_REACH = ["AbstractVector.assemble", "AssemblyManager._annotate_assembly"]
NEEDS_REGISTRIES = True
BUDGET_S = {"quick": 900, "thorough": 7200}
IDCH = "ABCDEFGHIJKLMNOPQRSTUVWXYZabcdefghijklmnopqrstuvwxyz0123456789_"
IDWORDS = ["pTU", "linker", "promoter", "leader", "signal", "reporter", "degron", "stop", "term", "pDest", "RFP", "GFP", "ori", "bla"]


def setup(tier):
    regs.items()


def cases(tier, seed):
    per = 24 if tier == "quick" else 4000
    out = _embedded.assembly_cases(seed, per * len(gen.enzyme_names()), features=True, max_chain=4)
    # long module lists (the "Modules:" comment line of 7..10 supplied plasmids)
    out += _embedded.assembly_cases(seed + 7919, 40 if tier == "quick" else 2000, enzymes=["BsaI", "BsmBI", "BbsI", "FokI"], features=False, max_chain=10, tmax=12, bmax=10, pmax=8)
    # multigene-sized lists (up to 24 supplied plasmids in one reaction)
    out += _embedded.assembly_cases(seed + 104729, 24 if tier == "quick" else 600, enzymes=["BsaI", "BsmBI", "BbsI"], features=False, max_chain=24, tmax=8, bmax=6, pmax=6)
    out += _embedded.registry_assembly_cases(seed, per_vector=1 if tier == "quick" else 30)
    out += [{"kind": "two-level", "i": i, "seed": seed} for i in range(60 if tier == "quick" else 10000)]
    return out


def materialise(case):
    if case["kind"] == "assembly":
        m = _embedded.materialise_assembly(case)
        rng = gen.rng_for(case["seed"], PROP, "ids", case["i"])
        ids = set()
        for s in [m["vector"]] + m["modules"]:
            while True:
                if rng.random() < 0.4:
                    new = "-".join(rng.sample(IDWORDS, 2))[:16]      # hyphenated lab names (legal in GenBank ids)
                else:
                    new = "".join(rng.choice(IDCH) for _ in range(rng.randint(3, 16)))
                if new not in ids and not any(new in o or o in new for o in ids):
                    break
            ids.add(new)
            # own stream: ids as files and databases produce them - an accession with its version ("AB12345.1", the record
            # then also knows its sequence_version), or characters that mean something to a formatting routine
            ri = gen.rng_for(case["seed"], PROP, "id-shapes", case["i"], new)
            u = ri.random()
            if u < 0.15:
                ver = ri.choice([1, 2, 3])
                new = "%s.%d" % (new[:13], ver)
                if ri.random() < 0.8:
                    s.setdefault("annotations", {})["sequence_version"] = ver
            elif u < 0.27:
                new = new[:10] + ri.choice(["{}", "{0}", "{kan}", "%s", "%(x)s", "{", "}", "$x", "\\1"])
            for f in s["features"]:
                f["quals"]["uid"] = [f["quals"]["uid"][0].replace(s["id"] + ".", new + ".")]
            s["id"] = s["name"] = new
        # own stream: two modules that follow each other in the chain carry the same id and name (two products of earlier
        # assemblies, both still called "assembly"; two exports called alike), or one input has a name outside ASCII
        rs_ = gen.rng_for(case["seed"], PROP, "shared-and-foreign-ids", case["i"])
        u = rs_.random()
        if u < 0.15 and len(m["chain"]) >= 2:
            j = rs_.randrange(len(m["chain"]) - 1)
            a, b = m["modules"][m["chain"][j]], m["modules"][m["chain"][j + 1]]
            if rs_.random() < 0.5:
                a["id"] = a["name"] = "assembly"
            b["id"], b["name"] = a["id"], a["name"]
            m["shared_input_ids"] = True
        elif u < 0.30:
            s_ = rs_.choice([m["vector"]] + m["modules"])
            s_["id"] = s_["name"] = rs_.choice(["p\u03bb", "pl\u00e4smid", "\u0394lac", "p\u00c9co"]) + s_["id"][:8]
            m["foreign_input_id"] = True
        if rng.random() < 0.3:
            # a supplied module that chains nowhere: it is left out with a warning but must still be named in the comment
            geom = refmodel.geometry(gen.enzyme(m["enzyme"]))
            used = set(m["overhangs"]) | {rc(o) for o in m["overhangs"]}
            for _ in range(50):
                o = gen.gen_overhangs(rng, geom[2], 2, forbid=(geom[0], rc(geom[0])))
                if not (set(o) | {rc(x) for x in o}) & used and gen.max_distinct_overhangs(geom[2]) > len(m["overhangs"]) + 2:
                    try:
                        ex = gen.build_module(rng, geom, o[0], o[1], rng.randint(2, 12), rng.randint(0, 12))
                    except RuntimeError:
                        continue
                    m["modules"].insert(rng.randrange(len(m["modules"]) + 1),
                                        {"id": "SPARE_%d" % case["i"], "name": "spare", "seq": ex["seq"], "features": []})
                    m["has_unused"] = True
                    break
        m["id"] = "".join(rng.choice(IDCH) for _ in range(rng.randint(1, 16)))
        m["name"] = "".join(rng.choice(IDCH) for _ in range(rng.choice([rng.randint(1, 16), rng.randint(17, 28)])))
        # own stream: an empty requested name (the GenBank writer falls back to the id for the LOCUS line) or an empty
        # requested id (not GenBank-legal: the round trip is then not required, the other clauses are)
        re_ = gen.rng_for(case["seed"], PROP, "empty", case["i"])
        x = re_.random()
        if x < 0.06:
            m["name"] = ""
        elif x < 0.10:
            m["id"] = ""
        elif x < 0.30:
            m["name"] = "assembly"          # the default name, asked for explicitly together with another id
        elif x < 0.36:
            # white space at either end (a sample sheet's trailing newline, a padded fixed-width name): what was requested is
            # what the product carries; an id with white space is not GenBank-legal (no round trip required)
            if re_.random() < 0.5:
                m["name"] = re_.choice([" ", ""]) + m["name"] + re_.choice(["   ", "\t"])
            else:
                m["id"] = m["id"] + re_.choice(["\n", " "])
        elif x < 0.51:
            # dotted ids: a version that is a number, and lab spellings that are not ("pJC.v2", "kit.part-3", "a.b.1")
            m["id"] = m["id"][:9] + re_.choice([".1", ".12", ".v2", ".2b", ".part-3", ".b.1", "."])
        return m
    return case


_mon = None


def worker_init(ctx, tier):
    global _mon
    _mon = asmmon.AssembleMonitor(ctx, [asmmon.make_c09_judge()])
    _mon.install()


def two_level(mat, ctx):
    """level-0 assemblies over enzyme A into vectors that embed enzyme B's sites, then the products as modules of a level-1 assembly over B"""
    from Bio.Seq import Seq
    from moclo.record import CircularRecord

    rng = gen.rng_for(mat["seed"], PROP, "two", mat["i"])
    A, B = rng.choice([("BsaI", "BbsI"), ("BbsI", "BsaI"), ("BsaI", "BsmBI"), ("BsmBI", "BsaI")])
    ga, gb = refmodel.geometry(gen.enzyme(A)), refmodel.geometry(gen.enzyme(B))
    VA, MA = gen.generic_classes(A)
    VB, MB = gen.generic_classes(B)
    n1 = rng.randint(1, 3)
    ovB = gen.gen_overhangs(rng, gb[2], n1 + 1, forbid=(ga[0], rc(ga[0]), gb[0], rc(gb[0])))
    level0 = []
    for j in range(n1):
        # level-0 vector over A whose retained fragment is  oA_start . [B-site x ovB[j]] ... wait: retained = o_start + backbone;
        # embed in the backbone:  ... rc(B site) ... and B site so that the product is a B-module ovB[j] -> ovB[j+1]
        for attempt in range(200):
            oa = gen.gen_overhangs(rng, ga[2], 2, forbid=(ga[0], rc(ga[0]), gb[0], rc(gb[0])))
            x = gen.rand_dna(rng, gb[1])
            y = gen.rand_dna(rng, gb[1])
            filler = gen.rand_dna(rng, rng.randint(4, 20))
            # backbone (read from after o_start around to before o_end):  y' rc(siteB) filler siteB x  such that
            # product = o_start . backbone . insert  is the B-module  siteB x ovB[j] ... ovB[j+1] y rc(siteB)
            # i.e. circularly:  [siteB x] [ovB[j] = o_end-side] insert [ovB[j+1]-side = o_start] [y rc(siteB)] filler
            back = ovB[j + 1][ga[2]:] if False else ""
            backbone = ovB[j + 1] + y + rc(gb[0]) + filler + gb[0] + x + ovB[j]
            # the vector's A-overhangs sit just outside: o_start precedes the backbone, o_end follows it
            try:
                v = gen.build_vector(rng, ga, o_start=oa[1], o_end=oa[0], plen=rng.randint(0, 10), blen=0)
            except RuntimeError:
                continue
            vseq = v["seq"] + backbone  # appended backbone: retained fragment = o_start + backbone
            ins = gen.build_module(rng, ga, oa[0], oa[1], rng.randint(3, 20), rng.randint(0, 10))
            if (refmodel.count_sites(vseq, ga[0]) == 2 and refmodel.count_sites(vseq, gb[0]) == 2 and
                    refmodel.count_sites(ins["seq"], gb[0]) == 0):
                break
        else:
            ctx.count("two_level_unbuildable")
            return
        vrec = CircularRecord(Seq(vseq), id="v0_%d" % j, name="v0_%d" % j)
        irec = CircularRecord(Seq(ins["seq"]), id="ins%d" % j, name="ins%d" % j)
        with warnings.catch_warnings():
            warnings.simplefilter("ignore")
            p = VA(vrec >> rng.randrange(len(vrec))).assemble(MA(irec >> rng.randrange(len(irec))), id="L0_%d" % j, name="L0_%d" % j)
        if refmodel.count_sites(str(p.seq), gb[0]) != 2:
            ctx.count("two_level_junction_site")
            return
        if (mat["i"] + j) % 2:
            # the level-0 product is saved and re-read before it is re-used (its qualifier values then are lists, its comment
            # a string, as the GenBank parser delivers them)
            import io
            from Bio import SeqIO
            buf = io.StringIO()
            SeqIO.write(p, buf, "genbank")
            buf.seek(0)
            p = CircularRecord(SeqIO.read(buf, "genbank"))
            ctx.count("c09_level0_products_reloaded_from_genbank")
        level0.append(p)
    try:
        v1 = gen.build_vector(rng, gb, o_start=ovB[n1], o_end=ovB[0], plen=rng.randint(0, 10), blen=rng.randint(2, 20))
    except RuntimeError:
        ctx.count("two_level_unbuildable")
        return
    v1rec = CircularRecord(Seq(v1["seq"]), id="v1", name="v1")
    order = list(range(n1))
    rng.shuffle(order)
    before = ctx.counters["c09_inner_provenance_checked"]
    with warnings.catch_warnings():
        warnings.simplefilter("ignore")
        try:
            VB(v1rec).assemble(*[MB(level0[i] >> rng.randrange(len(level0[i]))) for i in order], id="L1", name="L1")
        except Exception as e:
            ctx.violation("two-level-assembly-raises:%s" % type(e).__name__, "re-using level-0 products as modules raised %s: %s" % (type(e).__name__, str(e)[:200]),
                          A=A, B=B, level0=[str(p.seq) for p in level0], vector=v1["seq"])
            return
    ctx.count("c09_two_level_products")
    ctx.nontrivial(["two", A, B, [str(p.seq) for p in level0]])
    ctx.sample({"kind": "two-level", "level0_enzyme": A, "level1_enzyme": B, "level0_products": n1}, cap=1)


_earlier = []     # (label, product, snapshot taken right after it was assembled) of the last few products of this worker


def _remember(label, product):
    _earlier.append((label, product, asmmon.deep_snapshot(product)))
    del _earlier[:-6]


def _earlier_products_untouched(ctx):
    """a finished product is a record of its own: later assemblies (in particular those that re-use it as a module) must
    not rewrite its comment, annotations or features"""
    for label, product, snap in _earlier:
        ctx.count("c09_earlier_products_rechecked")
        now = asmmon.deep_snapshot(product)
        if now != snap:
            ctx.violation("earlier-product-changed-by-later-assembly:" + ",".join(asmmon.snapshot_diff(snap, now))[:80],
                          "the product of an earlier assembly (%s) was altered by a later one: %s" % (label, asmmon.snapshot_diff(snap, now)))
            _earlier.remove((label, product, snap))
            return


def execute(mat, ctx):
    try:
        _execute(mat, ctx)
    finally:
        _earlier_products_untouched(ctx)
        p = getattr(_mon.last, "product", None) if _mon is not None and _mon.last is not None else None
        if p is not None and not any(p is q for _, q, _ in _earlier):
            _remember(str(mat.get("id") or mat.get("kind")), p)


def _execute(mat, ctx):
    ctx.count("evaluations")
    before = ctx.counters["c09_genbank_roundtrips"]
    if mat["kind"] == "assembly-mat":
        # two consecutive calls on the same record objects: the second product must be as complete as the first
        shared = (gen.make_record(mat["vector"]), [gen.make_record(x) for x in mat["modules"]])
        _mon.tag = {"call": 1}
        res = _embedded.run_assembly(mat, ctx, records=shared)
        _mon.tag = {"call": 2}
        _embedded.run_assembly(mat, ctx, records=shared)
        if mat["id"] and mat["id"][:1] in "ABCDEFGHIJKLM":
            _mon.tag = {"call": "renamed-after-wrapping"}
            _embedded.run_assembly(mat, ctx, rename_after_wrap=True)
            ctx.count("c09_renamed_after_wrapping")
        if mat.get("has_unused"):
            ctx.count("c09_with_unused_module")
        if mat.get("shared_input_ids"):
            ctx.count("c09_with_neighbouring_modules_sharing_an_id")
        if mat.get("foreign_input_id"):
            ctx.count("c09_with_non_ascii_input_id")
        sig = [mat["enzyme"], mat["vector"]["seq"], [m["seq"] for m in mat["modules"]], mat["id"]]
        sample = {"kind": "generated", "enzyme": mat["enzyme"], "id": mat["id"], "name": mat["name"], "input_ids": [mat["vector"]["id"]] + [m["id"] for m in mat["modules"]]}
        if res["outcome"] != "product":
            e = res["error"]
            ctx.violation("annotated-assembly-raises:%s" % type(e).__name__, "generated annotated assembly raised %s: %s" % (type(e).__name__, str(e)[:160]))
    elif mat["kind"] == "two-level":
        two_level(mat, ctx)
        return
    else:
        res = _embedded.run_registry_assembly(mat, ctx, with_features=True)
        if res["outcome"] == "product":
            ctx.count("c09_registry_products")
        sig = ["reg", mat["reg"], mat["vector"], mat["modules"], mat["rots"]]
        sample = {"kind": "registry", "registry": mat["reg"], "vector": mat["vector"], "modules": mat["modules"]}
    if ctx.counters["c09_genbank_roundtrips"] > before:
        ctx.nontrivial(sig)
        ctx.sample(sample, cap=2)

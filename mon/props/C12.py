"""C12 - Strand symmetry: reverse-complemented inputs give the reverse complement."""
import warnings

from .. import gen, regs, refmodel
from ..util import rc, rot_left, canon
from . import _embedded

PROP = "C12"
LEVEL = "exploration"
DESIGN_REF = "DESIGN.md section 4, C12"
TECHNIQUE = "metamorphic runtime monitor: observations of the real generic classes on a record and on its reverse complement (string-built and via CircularRecord.reverse_complement), and products of reverse-complemented inputs"
LEVEL_TEXT = ("For every generated well-formed vector/module over every supported geometry at random and hostile rotations, and for "
              "every registry plasmid with exactly two sites under the generic class of its cutter and role, the tuple (accepted?, "
              "overhangs, target) on the record is related to the tuple on its reverse complement: same verdict, overhangs exchanged and "
              "reverse-complemented, target body reverse-complemented; assemblies of the reverse complements of all inputs must give "
              "the reverse complement of the original product up to rotation; and when the inputs carry features strictly inside their "
              "retained fragments, both products must carry the same features, each reading the same 5'->3' along its own strand.")
LEVEL_NOTE = "the reverse complement used for the deciding comparison is built by the harness's own string function, so a defect in CircularRecord.reverse_complement cannot mask or fake a typing asymmetry; the API path is compared as well"
RULE = ("generated assemblies (every supported geometry, chains of 1..4, each plasmid independently rotated, 60% hostile) -> every input "
        "typed in both orientations (as CircularRecord and as a plain annotated SeqRecord) and the assembly run in both orientations, bare and "
        "with a simple feature and a two-exon join (either strand) inside each retained fragment, half of them rotated by the library so "
        "that the origin falls inside an exon; registry items with exactly one forward and one reverse "
        "site of their class's cutter typed by the harness-made generic class in both orientations. Non-trivial = the record is accepted "
        "in the forward orientation (so overhangs and target are compared); distinct = distinct (class, sequence).")
ASSUMPTIONS = ["records over ACGT with exactly the two recognition sites of the definition; single unknown/ambiguous letters next to the overhangs, in a spacer or in the backbone are probed for the typing relation",
               "the feature-level relation follows from C08 (features inside a retained fragment are inherited) and C14 (reverse complement keeps what a feature denotes); it is checked on features at least one nucleotide clear of the fragment ends"]
FLOORS = {"c12_typing_pairs": 2000, "c12_accepted_pairs": 1500, "c12_assembly_pairs": 400, "c12_registry_pairs": 60, "c12_annotated_assembly_pairs": 300}
MUST_REACH = ["CircularRecord.reverse_complement", "AbstractModule.structure", "AbstractVector.structure"]
NEEDS_REGISTRIES = True
BUDGET_S = {"quick": 900, "thorough": 7200}


def setup(tier):
    regs.items()


def cases(tier, seed):
    per = 25 if tier == "quick" else 4000
    # rc_closing=False: a chain whose vector upstream overhang is the reverse complement of an inner junction is assembled by the
    # library, but its reverse-complemented module set has two reverse-complementary *start* overhangs, for which C03 mandates
    # DuplicateModules; such chains are ambiguous and outside the well-formed space C12 quantifies over
    out = [dict(c, kind="asm") for c in _embedded.assembly_cases(seed, per * len(gen.enzyme_names()), features=False, max_chain=4, rc_closing=False)]
    its = regs.items()
    step = 3 if tier == "quick" else 1
    for j in range(0, len(its), 10):
        out.append({"kind": "registry", "indices": [i for i in range(j, min(len(its), j + 10)) if (i + seed) % step == 0], "seed": seed})
    return out


def materialise(case):
    return case


def worker_init(ctx, tier):
    pass


def observe(cls, rec, target=True):
    e = cls(rec)
    try:
        if not e.is_valid():
            return ("rejected",)
        # (a plain SeqRecord cannot be rotated, so the library cannot cut its target out: verdict and overhangs only)
        return ("accepted", str(e.overhang_start()).upper(), str(e.overhang_end()).upper(), str(e.target_sequence().seq).upper() if target else None)
    except Exception as ex:
        return ("raised", type(ex).__name__)


def compare_typing(ctx, cls, text, label, k):
    from Bio.Seq import Seq
    from moclo.record import CircularRecord

    from Bio.SeqRecord import SeqRecord

    rec = CircularRecord(Seq(text), "r")
    a0 = observe(cls, rec)
    # a plasmid as Bio.SeqIO hands it over (a plain SeqRecord whose annotations say circular) and what Biopython's own
    # reverse_complement() makes of it (annotations are dropped by default)
    plain = SeqRecord(Seq(text), "r", annotations={"topology": "circular", "molecule_type": "DNA"})
    for how, fwd, rrec in (("string", a0, CircularRecord(Seq(rc(text)), "r")), ("api", a0, rec.reverse_complement()),
                           ("plain-seqrecord", None, plain.reverse_complement())):
        ctx.count("evaluations")
        ctx.count("c12_typing_pairs")
        a = observe(cls, plain, target=False) if fwd is None else fwd
        b = observe(cls, rrec, target=fwd is not None)
        wit = dict(cls=cls.__name__, cutter=str(cls.cutter), text=text if len(text) < 600 else text[:600] + "...", how=how, forward=[str(x)[:60] for x in a], reverse=[str(x)[:60] for x in b])
        if a[0] != b[0]:
            ctx.violation("strand-asymmetric-verdict:%s->%s" % (a[0], b[0]), "%s %s a record but %s its reverse complement (%s)" % (
                cls.__name__, a[0], b[0], how), **wit)
            continue
        if a[0] != "accepted":
            continue
        ctx.count("c12_accepted_pairs")
        ctx.nontrivial([cls.__name__, text, how])
        if (b[1], b[2]) != (rc(a[2]), rc(a[1])):
            ctx.violation("strand-asymmetric-overhangs", "%s: overhangs %s/%s on the record, %s/%s on its reverse complement (expected %s/%s)" % (
                cls.__name__, a[1], a[2], b[1], b[2], rc(a[2]), rc(a[1])), **wit)
        elif a[3] is not None and b[3][k:] != rc(a[3][k:]):
            ctx.violation("strand-asymmetric-target", "%s: target body on the reverse complement is not the reverse complement of the target body (%d vs %d nt)" % (
                cls.__name__, len(b[3]) - k, len(a[3]) - k), **wit)


def product(V, M, texts, how):
    from Bio.Seq import Seq
    from moclo.record import CircularRecord

    recs = [CircularRecord(Seq(t), "x%d" % i) for i, t in enumerate(texts)]
    if how == "api":
        recs = [r.reverse_complement() for r in recs]
    elif how == "string":
        recs = [CircularRecord(Seq(rc(t)), "x%d" % i) for i, t in enumerate(texts)]
    with warnings.catch_warnings():
        warnings.simplefilter("ignore")
        try:
            return canon(str(V(recs[0]).assemble(*[M(r) for r in recs[1:]]).seq))
        except Exception as e:
            return "raised " + type(e).__name__


def _inner_features(rng, spec, k):
    """two features strictly inside the retained fragment of a generated plasmid (a simple one and a two-exon join, either
    strand), in the coordinates of the record as stored - so a feature may straddle the record's origin, as a join or past the end"""
    n = len(spec["seq"])
    fs = (spec["built"]["frag_start_unrotated"] - spec["built"]["rot_left"]) % n
    fl = spec["built"]["frag_len"]
    lo, hi = fs + k + 1, fs + fl - 1           # one letter clear of both ends of the target body
    feats = []
    if hi - lo >= 2:
        a = rng.randint(lo, hi - 1)
        b = rng.randint(a + 1, hi)
        feats.append([[a, b, rng.choice([1, -1])]])
    if hi - lo >= 5:
        c = sorted(rng.sample(range(lo, hi + 1), 4))
        if c[1] < c[2]:
            st = rng.choice([1, -1])
            exons = [[c[0], c[1], st], [c[2], c[3], st]]
            feats.append(exons if st == 1 else exons[::-1])
    out = []
    for j, parts in enumerate(feats):
        parts = _embedded._split_wrapping(rng, gen.rotate_parts(parts, 0, n), n)
        out.append({"type": "CDS", "parts": parts, "quals": {"uid": ["%s.inner%d" % (spec["id"], j)]}})
    return out


def _sense_texts(record):
    """{uid: the nucleotides the feature denotes, read 5'->3' along its own strand} for the features carrying a uid"""
    from ..denote import denote
    from ..util import rc as _rc
    text = str(record.seq).upper()
    n = len(text)
    comp = {"A": "T", "C": "G", "G": "C", "T": "A"}
    out = {}
    for f in record.features:
        u = f.qualifiers.get("uid")
        if not u or f.location is None:
            continue
        out.setdefault(u[0], []).append("".join(text[p] if st != -1 else comp[text[p]] for p, st in denote(f.location, n) if not isinstance(p, tuple)))
    return {u: sorted(v) for u, v in out.items()}


def annotated_products(ctx, V, M, amat):
    """the assembly of annotated inputs and the assembly of their (library-made) reverse complements must carry the same
    features: a feature's own 5'->3' reading does not depend on the strand the plasmid happens to be stored on"""
    rng = gen.rng_for("c12-inner", amat["enzyme"], amat["vector"]["seq"][:24])
    k = refmodel.geometry(gen.enzyme(amat["enzyme"]))[2]
    specs = []
    for sp in [amat["vector"]] + amat["modules"]:
        sp = dict(sp)
        sp["features"] = _inner_features(rng, sp, k)
        sp.pop("refs", None)
        specs.append(sp)
    if not any(sp["features"] for sp in specs):
        return
    recs = [gen.make_record(sp) for sp in specs]
    if rng.random() < 0.5:
        # the plasmids are first rotated by the library so that the origin falls strictly inside an exon (or anywhere)
        rot = []
        for sp, r in zip(specs, recs):
            n = len(r)
            inner = [p for f in sp["features"] for a, b, _ in f["parts"] for p in range(a + 1, b)]
            kk = (n - rng.choice(inner)) % n if inner and rng.random() < 0.8 else rng.randrange(n)
            rot.append(r >> kk)
        recs = rot
        ctx.count("c12_annotated_inputs_rotated_by_library")
    outs = []
    for how in ("forward", "api"):
        rs = recs if how == "forward" else [r.reverse_complement() >> rng.randrange(len(r)) for r in recs]
        with warnings.catch_warnings():
            warnings.simplefilter("ignore")
            try:
                outs.append(_sense_texts(V(rs[0]).assemble(*[M(r) for r in rs[1:]])))
            except Exception as e:
                outs.append("raised " + type(e).__name__)
    ctx.count("c12_annotated_assembly_pairs")
    if outs[0] != outs[1]:
        ctx.violation("strand-asymmetric-features", "%s chain of %d: the product of the annotated inputs carries %s, the product of their reverse complements %s" % (
            amat["enzyme"], len(specs) - 1, str(outs[0])[:200], str(outs[1])[:200]), enzyme=amat["enzyme"], specs=[{"seq": sp["seq"], "features": sp["features"]} for sp in specs])


def execute(mat, ctx):
    if mat["kind"] == "asm":
        amat = _embedded.materialise_assembly(dict(mat, kind="assembly"))
        V, M = gen.generic_classes(amat["enzyme"])
        k = refmodel.geometry(gen.enzyme(amat["enzyme"]))[2]
        texts = [amat["vector"]["seq"]] + [m["seq"] for m in amat["modules"]]
        compare_typing(ctx, V, texts[0], "vector", k)
        for t in texts[1:]:
            compare_typing(ctx, M, t, "module", k)
            compare_typing(ctx, V, t, "module-as-vector", k)
        # unknown and ambiguous letters on the positions that flank the overhangs (the wildcards of the structures), in the
        # spacers and anywhere in the backbone: whatever the verdict is, it is the same for the reverse complement
        rl = gen.rng_for("c12-flank-letters", amat["enzyme"], texts[0][:24])
        geom = refmodel.geometry(gen.enzyme(amat["enzyme"]))
        for t, cls in [(texts[0], V)] + [(x, M) for x in texts[1:2]]:
            fr = refmodel.module_fragment(t.upper(), geom)
            if fr is None:
                continue
            n = len(t)
            a, flen = fr[0], len(fr[1])
            spots = [(a + k) % n, (a + flen - 1) % n, (a + flen + k) % n, (a - 1) % n, rl.randrange(n)]
            for pos in spots:
                for letter in ("N", rl.choice("RYKMSWBDHV"), "n"):
                    mt = t[:pos] + letter + t[pos + 1:]
                    ctx.count("c12_flank_letter_probes")
                    compare_typing(ctx, cls, mt, "flank-letter", k)
        fwd = product(V, M, texts, "forward")
        for how in ("string", "api"):
            ctx.count("evaluations")
            ctx.count("c12_assembly_pairs")
            rev = product(V, M, texts, how)
            want = canon(rc(fwd)) if not fwd.startswith("raised") else fwd
            if rev != want:
                ctx.violation("strand-asymmetric-assembly:%s" % how, "%s chain of %d: assembling the reverse complements gives %s, the reverse complement of the original product is %s" % (
                    amat["enzyme"], len(texts) - 1, rev[:60], want[:60]), enzyme=amat["enzyme"], texts=texts)
        annotated_products(ctx, V, M, amat)
        ctx.sample({"kind": "assembly", "enzyme": amat["enzyme"], "vector": texts[0][:80], "modules": len(texts) - 1}, cap=2)
        return
    from moclo.core.vectors import AbstractVector
    for i in mat["indices"]:
        rname, key, cls, rec = regs.items()[i]
        text = str(rec.seq).upper()
        if set(text) - set("ACGT"):
            ctx.count("registry_skipped_non_acgt")
            continue
        from .. import asmmon
        if not asmmon.supported_cutter(cls.cutter):
            continue
        geom = refmodel.geometry(cls.cutter)
        if refmodel.module_fragment(text, geom) is None:
            ctx.count("registry_skipped_not_two_sites")
            continue
        V, M = gen.generic_classes(str(cls.cutter))
        G = V if issubclass(cls, AbstractVector) else M
        rng = gen.rng_for(mat["seed"], PROP, key)
        ctx.count("c12_registry_pairs")
        compare_typing(ctx, G, rot_left(text, rng.randrange(len(text))), "registry", geom[2])
        ctx.sample({"kind": "registry", "registry": rname, "key": key, "generic_class": G.__name__}, cap=1)

"""C19 - Parts of the same type are interchangeable."""
import warnings

from .. import gen, regs, refmodel, asmmon
from ..util import rc, rot_left
from . import _embedded

PROP = "C19"
LEVEL = "exploration"
DESIGN_REF = "DESIGN.md section 4, C19"
TECHNIQUE = "runtime monitor on pairs of assemble() calls: products of an assembly and of the same assembly with one module exchanged for another of the same overhangs, compared segment-wise through the monitor's position layout"
LEVEL_TEXT = ("For every position of every generated assembly (all supported geometries) and of the chains derived from the registries, "
              "the module is exchanged for another valid module with the same two overhangs (fresh targets of other lengths, other "
              "spacers/backbones/rotations; in the registries every same-signature plasmid on offer); both real products are cut into "
              "segments with the layout derived by the assemble monitor and compared: the exchange must succeed, every other segment "
              "and the vector backbone must be byte-for-byte equal and the exchanged segment must be the new overhang + target.")
LEVEL_NOTE = "the segmentation uses mon/refmodel.py on the inputs; the comparison itself is between two products of the real code"
RULE = ("generated: per supported geometry chains of 1..4 modules (half of them typed by user-defined part classes whose signature is the "
        "position's overhang pair), each position exchanged for 2 fresh same-overhang modules with targets of other lengths (2..60 nt) "
        "stored under the same record id, the entities of the original assembly being kept alive; registry: per derived chain, each position exchanged for every (quick: up to 3) other registry "
        "plasmid with the same cutter and the same two overhangs (e.g. YTK promoters, CIDAR promoters). Non-trivial = exchange executed "
        "and both products segmented and compared; distinct = distinct (original inputs, position, replacement).")
ASSUMPTIONS = ["both assemblies are complete unambiguous chains of well-formed plasmids (exactly two sites each)"]
FLOORS = {"c19_degenerate_signature_replacements": 50, "c19_typed_part_cases": 50, "c19_exchanges": 600, "c19_registry_exchanges": 30, "c19_segments_compared": 1500}
MUST_REACH = ["AbstractVector.assemble", "AssemblyManager._generate_assembly"]
NEEDS_REGISTRIES = True
BUDGET_S = {"quick": 900, "thorough": 7200}


def setup(tier):
    regs.items()


def cases(tier, seed):
    per = 12 if tier == "quick" else 2500
    out = [dict(c, kind="asm") for c in _embedded.assembly_cases(seed, per * len(gen.enzyme_names()), features=False, max_chain=4)]
    out += _embedded.registry_assembly_cases(seed, per_vector=1 if tier == "quick" else 20)
    return out


def materialise(case):
    return case


_mon = None
TIER = "quick"


def worker_init(ctx, tier):
    global _mon, TIER
    TIER = tier
    _mon = asmmon.AssembleMonitor(ctx, [])
    _mon.install()


_alive = []


def run(vcls, vrec, mods):
    """assemble; return (product text rotated to start with the vector fragment, segment list [(record index, length)]) or error.
    The entities of every run stay alive until the case is over (a user keeps the parts of the original
    assembly around while trying a replacement)."""
    with warnings.catch_warnings():
        warnings.simplefilter("ignore")
        ents = [vcls(vrec)] + [c(r) for c, r in mods]
        _alive.append(ents)
        try:
            ents[0].assemble(*ents[1:])
        except Exception as e:
            return ("raised", e)
    lay = asmmon.product_layout(_mon.last)
    if lay is None:
        return ("unmodelled", _mon.last.model)
    lay = lay[0]
    p = str(_mon.last.product.seq).upper()
    start = lay["segments"][0][3]
    return ("ok", rot_left(p, start), [(ri, ln) for ri, _, ln, _ in lay["segments"]], _mon.last.model)


def compare(ctx, base, new, pos_arg, label, wit):
    """pos_arg: argument index (1-based record index) of the exchanged module"""
    ctx.count("c19_exchanges")
    ctx.count("evaluations")
    if new[0] == "raised":
        e = new[1]
        ctx.violation("exchange-fails:%s" % type(e).__name__, "%s: after exchanging a module for another with the same overhangs the assembly raised %s: %s" % (
            label, type(e).__name__, str(e)[:160]), **wit)
        return
    if new[0] != "ok":
        ctx.violation("exchange-changes-more-than-the-segment", "%s: the product after the exchange is not the closed form of the new inputs" % label, **wit)
        return
    p1, s1 = base[1], base[2]
    p2, s2 = new[1], new[2]
    if [ri for ri, _ in s1] != [ri for ri, _ in s2]:
        ctx.violation("exchange-changes-chain-order", "%s: chain order %s became %s" % (label, [ri for ri, _ in s1], [ri for ri, _ in s2]), **wit)
        return
    o1 = o2 = 0
    for (ri, l1), (_, l2) in zip(s1, s2):
        a, b = p1[o1:o1 + l1], p2[o2:o2 + l2]
        ctx.count("c19_segments_compared")
        if ri == pos_arg:
            want = new[3]["frags"][ri][1]
            if b != want:
                ctx.violation("exchanged-segment-wrong", "%s: the exchanged segment is not the new module's overhang + target" % label, got=b[:200], want=want[:200], **wit)
        elif a != b:
            ctx.violation("exchange-changes-other-segment", "%s: segment of input %d differs after exchanging input %d" % (label, ri, pos_arg), before=a[:200], after=b[:200], **wit)
        o1 += l1
        o2 += l2


def execute(mat, ctx):
    from Bio.Seq import Seq
    from moclo.record import CircularRecord

    if mat["kind"] == "asm":
        amat = _embedded.materialise_assembly(dict(mat, kind="assembly"))
        V, M = gen.generic_classes(amat["enzyme"])
        geom = refmodel.geometry(gen.enzyme(amat["enzyme"]))
        texts = [amat["vector"]["seq"]] + [m["seq"] for m in amat["modules"]]
        # the topology annotation in any spelling the library accepts, or none (decided by the text, so that replays agree)
        topo = lambda t: [None, "circular", "Circular", None, "CIRCULAR"][(len(t) + ord(t[0]) + ord(t[-1])) % 5]
        def rec(t, i):
            # per-letter tracks (same name, any container type) and one feature with fuzzy positions, both decided by the text
            spec = {"id": "r%d" % i, "seq": t, "features": []}
            # record-wide annotations of any usual shape (molecule type in any spelling ...) and, now and then, an anonymous
            # record (blank id, name and description)
            ann = gen.annotation_variety("c19", t[:30], len(t)) or {}
            if topo(t):
                ann["topology"] = topo(t)
            if ann:
                spec["annotations"] = ann
            hh = (len(t) * 13 + ord(t[2 % len(t)])) % 9
            if hh == 0:
                spec.update(id="", name="", description="")
            elif hh == 1:
                spec.update(id="<unknown id>", name="<unknown name>", description="")
            lt = gen.letter_track_variety(len(t), "c19", t[:30], len(t))
            if lt:
                spec["letters"] = lt
            h = (len(t) * 7 + ord(t[len(t) // 2])) % 5
            if h < 2 and len(t) > 12:
                a = (len(t) * 3 + ord(t[1])) % (len(t) - 6)
                spec["features"].append({"type": "misc_feature", "parts": [[a, a + 4, [1, -1][h]]], "fuzzy": [["w", "o"] if h else ["t", "a"]],
                                         "quals": {"note": ["uncertain ends"]}})
            hr = (len(t) * 5 + ord(t[3 % len(t)])) % 4
            if hr == 0:
                # a documented part: a reference list and a feature citing one or several of its entries (the last one included)
                k = 1 + (len(t) + ord(t[-1])) % 3
                spec["refs"] = [dict(_embedded._ref((len(t) + j) % _embedded.REF_POOL), span=True) for j in range(k)]
                cits = [["[%d]" % k], ["[1]"], ["[1]", "[%d]" % k]][(len(t) + ord(t[0])) % 3]
                spec["features"].append({"type": "misc_feature", "parts": [[0, 1, 1]], "quals": {"note": ["documented"], "citation": cits}})
            return gen.make_record(spec)
        del _alive[:]
        classes = [M] * (len(texts) - 1)
        if mat["i"] % 2:
            # typed parts: one user-defined part class per position, signature = the two overhangs of that position;
            # the replacement is a new version of the same part stored under the same record id
            from moclo.core.parts import AbstractPart
            frs = [refmodel.module_fragment(t.upper(), geom) for t in texts[1:]]
            classes = [type(str("Part%d_%d" % (mat["i"], j)), (AbstractPart, M), {"cutter": gen.enzyme(amat["enzyme"]), "signature": (f[2], f[3])}) for j, f in enumerate(frs)]
            ctx.count("c19_typed_part_cases")
        base = run(V, rec(texts[0], 0), [(c, rec(t, i + 1)) for i, (c, t) in enumerate(zip(classes, texts[1:]))])
        if base[0] != "ok":
            ctx.count("base_assembly_not_ok")
            return
        rng = gen.rng_for(mat["seed"], PROP, "asm", mat["i"])
        for pos in range(1, len(texts)):
            fr = base[3]["frags"][pos]
            for rep in range(2):
                try:
                    nm = gen.build_module(rng, geom, fr[2], fr[3], rng.choice([2, 3, rng.randint(2, 60)]), rng.randint(0, 30))
                except RuntimeError:
                    continue
                ntext = rot_left(nm["seq"], rng.randrange(len(nm["seq"])))
                hcase = (len(ntext) + ord(ntext[0])) % 5
                if hcase == 0:
                    # a few edited bases shown in lower case by a sequence editor
                    ntext = "".join(c.lower() if (i * 7 + len(ntext)) % 11 == 0 else c for i, c in enumerate(ntext))
                elif hcase == 1:
                    ntext = ntext.lower()
                t2 = list(texts)
                t2[pos] = ntext
                cls2 = list(classes)
                how = rng.choice(["same-class", "same-class", "isoschizomer", "degenerate-signature"])
                if how == "isoschizomer":
                    # the replacement comes from another kit that spells the same enzyme differently (BbsI / BpiI ...)
                    iso = gen.isoschizomer_names(amat["enzyme"])
                    if iso:
                        cls2[pos - 1] = gen.generic_classes(rng.choice(iso))[1]
                        ctx.count("c19_isoschizomer_replacements")
                elif how == "degenerate-signature":
                    # the replacement is typed by a part class whose signature is written with IUPAC codes that contain the overhangs
                    from moclo.core.parts import AbstractPart
                    from ..util import IUPAC
                    def widen(o):
                        i = rng.randrange(len(o))
                        codes = [c for c, members in IUPAC.items() if o[i] in members and len(members) > 1]
                        return o[:i] + rng.choice(codes) + o[i + 1:]
                    sig = (widen(fr[2]) if rng.random() < 0.7 else fr[2], widen(fr[3]) if rng.random() < 0.7 else fr[3])
                    cls2[pos - 1] = type(str("Wide%d_%d_%d" % (mat["i"], pos, rep)), (AbstractPart, M), {"cutter": gen.enzyme(amat["enzyme"]), "signature": sig})
                    ctx.count("c19_degenerate_signature_replacements")
                new = run(V, rec(t2[0], 0), [(c, rec(t, i + 1)) for i, (c, t) in enumerate(zip(cls2, t2[1:]))])
                compare(ctx, base, new, pos, "%s chain of %d, position %d" % (amat["enzyme"], len(texts) - 1, pos),
                        dict(enzyme=amat["enzyme"], texts=texts, replacement=ntext, position=pos))
                ctx.nontrivial([amat["enzyme"], texts, pos, ntext])
        ctx.sample({"kind": "generated", "enzyme": amat["enzyme"], "modules": len(texts) - 1, "vector": texts[0][:60]}, cap=2)
        return
    del _alive[:]
    vcls, vrec, mods = _embedded.registry_records(mat)
    base = run(vcls, vrec, mods)
    if base[0] != "ok":
        ctx.count("base_registry_assembly_not_ok")
        return
    graph = [x for x in _embedded._registry_graph().get(mat["reg"], []) if x["role"] == "M"]
    rng = gen.rng_for(mat["seed"], PROP, "reg", mat["reg"], mat["vector"], mat["n"])
    for pos, key in enumerate(mat["modules"], start=1):
        me = next(x for x in graph if x["key"] == key)
        alts = [x for x in graph if x["key"] != key and x["enz"] == me["enz"] and x["start"] == me["start"] and x["end"] == me["end"]]
        rng.shuffle(alts)
        for alt in alts[: 3 if TIER == "quick" else 40]:
            r = alt["rec"]
            k = rng.randrange(len(r))
            nrec = CircularRecord(Seq(rot_left(str(r.seq), k)), id=r.id, name=r.name,
                                  annotations={"topology": ["circular", "Circular", "CIRCULAR"][k % 3]} if k % 2 else None)
            m2 = list(mods)
            m2[pos - 1] = (alt["cls"], nrec)
            new = run(vcls, vrec, m2)
            ctx.count("c19_registry_exchanges")
            compare(ctx, base, new, pos, "registry %s, %s exchanged for %s" % (mat["reg"], key, alt["key"]),
                    dict(registry=mat["reg"], vector=mat["vector"], modules=mat["modules"], exchanged=key, replacement=alt["key"]))
            ctx.nontrivial([mat["reg"], mat["vector"], mat["modules"], key, alt["key"]])
    ctx.sample({"kind": "registry", "registry": mat["reg"], "vector": mat["vector"], "modules": mat["modules"]}, cap=2)

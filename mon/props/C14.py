"""C14 - Reverse complement of a circular record stays circular and loses nothing."""
from .. import gen
from ..monitors import ReverseComplementMonitor, compare_reverse_complement, compare_rotated, snapshot_for_rotation, feature_table
from ..denote import denote, same_denotation
from . import _embedded

PROP = "C14"
LEVEL = "exploration"
DESIGN_REF = "DESIGN.md section 4, C14"
TECHNIQUE = "runtime monitor (post-condition wrapper on CircularRecord.reverse_complement) + involution / rotation-commutation law driver"
LEVEL_TEXT = ("Every reverse_complement() call made by the workload is judged online against the mirror-image denotation model "
              "(p -> n-1-p, strand flipped, reading order kept); a driver adds the two algebraic laws (double application, "
              "commutation with rotation). Held = no refuting call among the observed executions.")
LEVEL_NOTE = "trusts CPython, Biopython's Seq.reverse_complement for the letters, and the denotation model in mon/denote.py"
RULE = ("(a) exhaustive small: every length 1..6 with every simple location on both strands and unstranded, every origin-spanning "
        "join, a past-the-end part and a whole-length feature, after every prior rotation k in 0..n-1; (b) generated DNA records of "
        "length 1..40 (upper/lower case) with 0..8 features of all shapes after 0..3 prior rotations (so locations extending past the "
        "end occur), checking rc, rc.rc and rc(r>>k) vs rc(r)<<k; (c) embedded: the assemblies of reverse-complemented inputs. "
        "Non-trivial = the record carries at least one feature that is not whole-length; distinct = distinct (length, parts, prior rotations, k).")
ASSUMPTIONS = [
    "records are CircularRecords over Seq; positions of any Biopython kind are compared through their integer value; default arguments of reverse_complement()",
    "unstranded features are compared as position sets (they have no reading direction)",
    "a feature covering the whole circle exactly once has no distinguished start",
]
FLOORS = {"rc_after_edit": 100, "rc_calls": 300, "rc_feature_checks": 500, "law_rcrc": 100, "law_commute": 100, "past_end_inputs": 20}
MUST_REACH = ["CircularRecord.reverse_complement"]
BUDGET_S = {"quick": 600, "thorough": 3600}


def cases(tier, seed):
    out = [{"kind": "small", "n": n} for n in range(1, 7)]
    ngen = 500 if tier == "quick" else 300000
    out += [{"kind": "gen", "i": i, "seed": seed} for i in range(ngen)]
    out += _embedded.assembly_cases(seed, 48 if tier == "quick" else 2400, features=True, max_chain=3)
    return out


def _small(n):
    feats = []
    u = 0
    for a in range(n):
        for b in range(a + 1, n + 1):
            for st in (1, -1, None):
                feats.append({"type": "misc", "parts": [[a, b, st]], "quals": {"uid": ["f%d" % u]}})
                u += 1
    for a in range(1, n):
        for b in range(1, a + 1):
            for st in (1, -1):
                parts = [[a, n, st], [0, b, st]]
                if st == -1:
                    parts = parts[::-1]
                feats.append({"type": "misc", "parts": parts, "quals": {"uid": ["f%d" % u]}})
                u += 1
    if n > 1:
        feats.append({"type": "misc", "parts": [[n - 1, n + 1, 1]], "quals": {"uid": ["past"]}})
    seq = ("ACGTTGCA" * 2)[:n]
    rec = {"id": "small%d" % n, "seq": seq, "features": feats, "annotations": {"topology": "circular"}}
    return {"kind": "small", "rec": rec, "runs": [{"prior": [k], "k": 1} for k in range(n)]}


def materialise(case):
    if "rec" in case or case.get("kind") == "assembly-mat":
        return case
    if case["kind"] == "assembly":
        return _embedded.materialise_assembly(case)
    if case["kind"] == "small":
        return _small(case["n"])
    rng = gen.rng_for(case["seed"], PROP, case["i"])
    n = rng.choice([1, 2, 3]) if rng.random() < 0.1 else rng.randint(1, 40)
    seq = gen.rand_dna(rng, n, "ACGTacgt" if rng.random() < 0.2 else "ACGT")
    feats = []
    for j in range(rng.randint(0, 8)):
        parts, shape = gen.rand_feature_parts(rng, n)
        feats.append({"type": rng.choice(["CDS", "misc_feature", "source"]), "parts": parts, "quals": {"uid": ["u%d" % j], "note": ["n%d" % j]}})
    rdup = gen.rng_for(case["seed"], PROP, "dup", case["i"])   # own stream: the draws above and below stay what they were
    if feats and rdup.random() < 0.25:
        # the same annotation listed twice (exact duplicate, as plasmid editors export them), adjacent or not
        import copy
        feats.insert(rdup.randint(0, len(feats)), copy.deepcopy(rdup.choice(feats)))
    for f in feats:
        # fuzzy positions (<5, >8, (5.8), 5^8, one-of(5,8)) on one feature in five: they denote the same nucleotides as exact ones
        if rdup.random() < 0.2:
            f["fuzzy"] = gen.fuzzy_kinds(rdup, len(f["parts"]))
    rid = gen.rng_for(case["seed"], PROP, "feature-ids", case["i"])
    for j, f in enumerate(feats):
        if rid.random() < 0.4:
            f["fid"] = "feat%04d" % j            # identifiers as annotation pipelines assign them
        if rid.random() < 0.12:
            f["parts"] = [[p[0], p[1], 0 if p[2] is None else p[2]] + list(p[3:]) for p in f["parts"]]     # strand 0: "stranded, strand unknown"
    if rid.random() < 0.15:
        # a feature with an exon on another record next to a local one (GenBank join(J00194.1:3..8,5..9)), or wholly elsewhere
        a = rid.randint(0, 3 * n + 5)
        remote = [a, a + rid.randint(1, 2 * n + 3), rid.choice([1, -1]), "J%05d.1" % rid.randint(0, 99999), None]
        parts = [remote]
        if rid.random() < 0.6 and n >= 2:
            x = rid.randrange(n - 1)
            local = [x, rid.randint(x + 1, n), remote[2]]
            parts = [local, remote] if rid.random() < 0.5 else [remote, local]
        feats.append({"type": "misc_feature", "parts": parts, "quals": {"uid": ["remote"], "note": ["elsewhere"]}})
    rec = {"id": "r%d" % case["i"], "seq": seq, "features": feats, "annotations": {"topology": "circular", "molecule_type": "DNA"}}
    if rng.random() < 0.5:
        rec["letters"] = {"phred_quality": [rng.randint(0, 60) for _ in range(n)]}
        if rng.random() < 0.4:
            rec["letters"]["trace"] = ["t%d" % j for j in range(n)]
        if rng.random() < 0.3:
            rec["letters"]["secondary_structure"] = gen.rand_dna(rng, n, ".()<>")
    prior = [rng.randint(-2 * n, 2 * n) for _ in range(rng.randint(0, 3))]
    return {"kind": "gen", "rec": rec, "runs": [{"prior": prior, "k": rng.randint(-2 * n, 2 * n)}]}


_mon = None


def worker_init(ctx, tier):
    global _mon
    _mon = ReverseComplementMonitor(ctx)
    _mon.install()


def _equiv(ctx, a, b, mech, msg, n):
    """same sequence and every feature denoting the same nucleotides"""
    if str(a.seq) != str(b.seq):
        ctx.violation(mech + "-sequence", msg + ": sequences differ (%r vs %r)" % (str(a.seq)[:50], str(b.seq)[:50]))
        return
    fa, fb = feature_table(a), feature_table(b)
    ka, kb = {k for k in fa if k[0] == "uid"}, {k for k in fb if k[0] == "uid"}
    if ka != kb or len(fa) != len(fb):
        ctx.violation(mech + "-features-lost", msg + ": feature sets differ (%s vs %s; %d vs %d features)" % (sorted(map(str, ka)), sorted(map(str, kb)), len(fa), len(fb)))
        return
    same = lambda pa, pb: same_denotation(denote({"parts": pa}, n), denote({"parts": pb}, n), n, stranded=all(x[2] in (1, -1) for x in pa))
    for key in ka:
        pa, pb = fa[key][3], fb[key][3]
        if not same(pa, pb):
            ctx.violation(mech + "-denotation", msg + ": feature %s denotes %r on one side and %r on the other (length %d)" % (key, pa, pb, n),
                          a=pa, b=pb)
    # features sharing a uid (exact duplicates) or carrying none: matched as a multiset
    rest = [v for k, v in fb.items() if k[0] != "uid"]
    for k, v in fa.items():
        if k[0] == "uid":
            continue
        hit = next((w for w in rest if (w[0], w[2]) == (v[0], v[2]) and same(v[3], w[3])), None)
        if hit is None:
            ctx.violation(mech + "-denotation", msg + ": the %s feature at %r has no counterpart denoting the same nucleotides on the other side (length %d)" % (v[0], v[3], n), a=v[3])
        else:
            rest.remove(hit)


def execute(mat, ctx):
    if mat["kind"] == "assembly-mat":
        # embedded: annotated assembly inputs (hostile rotations, boundary-snapped and origin-spanning features) are
        # reverse-complemented - each call judged by the monitor - and the reverse complements assembled
        import warnings
        V, M = gen.generic_classes(mat["enzyme"])
        recs = [gen.make_record(mat["vector"])] + [gen.make_record(m) for m in mat["modules"]]
        rcs = [r.reverse_complement() for r in recs]
        ctx.count("evaluations")
        ctx.count("embedded_assembly_inputs_reverse_complemented", len(rcs))
        with warnings.catch_warnings():
            warnings.simplefilter("ignore")
            try:
                prod = V(rcs[0]).assemble(*[M(r) for r in rcs[1:]])
                # the product (provenance features, inherited features) reverse-complemented, rotated, and back
                prc = prod.reverse_complement()
                (prod >> (len(prod) // 3)).reverse_complement()
                prc.reverse_complement()
                ctx.count("embedded_products_reverse_complemented")
            except Exception:
                pass
        if any(s["features"] for s in [mat["vector"]] + mat["modules"]):
            ctx.nontrivial(["asm", mat["enzyme"], mat["vector"]["seq"], [m["seq"] for m in mat["modules"]]])
        return
    n = len(mat["rec"]["seq"])
    for run in mat["runs"]:
        ctx.count("evaluations")
        r = gen.make_record(mat["rec"])
        for k in run["prior"]:
            r = r >> k
        if any(p[1] > n or p[0] < 0 for f in r.features if f.location is not None for p in [(int(x.start), int(x.end)) for x in f.location.parts]):
            ctx.count("past_end_inputs")
        c = r.reverse_complement()          # judged by the monitor
        cc = c.reverse_complement()         # judged by the monitor, and:
        ctx.count("law_rcrc")
        _equiv(ctx, r, cc, "rcrc", "reverse_complement() applied twice to a record with prior rotations %s" % run["prior"], n)
        # same object, edited feature table, asked again (each call is judged against the table it was given)
        from Bio.SeqFeature import SeqFeature, FeatureLocation
        r.features.append(SeqFeature(FeatureLocation(0, max(1, n // 2), -1), type="late", qualifiers={"uid": ["late"]}))
        if len(r.features) > 1:
            r.features[0].qualifiers["note"] = ["edited"]
        r.reverse_complement()
        ctx.count("rc_after_edit")
        del r.features[-1]
        # ... and edited without changing any count (identifiers, a feature moved in place, a qualifier, the order of the
        # table), then asked again: a reverse complement remembered from the first asking would be refuted by the monitor
        from . import C13
        r.reverse_complement()              # (asked once more first, so that the two askings around the edit see the same counts)
        h = n + len(r.features) + len(run["prior"])
        for j, what in enumerate((["rename", "move-feature"], ["qualifier", "swap-features"], ["describe", "move-feature"], ["annotation", "rename"])[h % 4]):
            C13._edit(r, what, h * 7 + j, ctx)
        r.reverse_complement()
        ctx.count("rc_after_count_preserving_edit")
        k = run["k"]
        ctx.count("law_commute")
        _equiv(ctx, (r >> k).reverse_complement(), r.reverse_complement() << k, "commute",
               "rc(r >> %d) vs rc(r) << %d (prior rotations %s)" % (k, k, run["prior"]), n)
        if any(f["parts"] != [[0, n, f["parts"][0][2]]] for f in mat["rec"]["features"]):
            ctx.nontrivial([n, [f["parts"] for f in mat["rec"]["features"]], run])
    ctx.sample({"length": n, "seq": mat["rec"]["seq"][:40], "features": [f["parts"] for f in mat["rec"]["features"]][:5], "runs": mat["runs"][:2]})

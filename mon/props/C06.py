"""C06 - Typing verdicts do not depend on what was typed before."""
import json
import os
import pickle
import signal
import subprocess
import sys

from .. import gen, boot
from ..util import rot_left

PROP = "C06"
LEVEL = "exploration"
DESIGN_REF = "DESIGN.md section 4, C06"
TECHNIQUE = "history monitor: fork-isolated validation histories compared with a fresh-interpreter baseline (os.fork per history, subprocess cross-check)"
LEVEL_TEXT = ("Each history 'validate the probe records of classes A1..Ak, then query class B' runs in its own forked child of a parent "
              "that has imported the kits but never validated anything; the answers of B (accepted?, overhangs, target or exception "
              "class for every probe record) are compared with those of a child that queried B first. The fork baseline is itself "
              "cross-checked against real fresh interpreters. Thorough enumerates all ordered pairs of the 85 kit classes.")
LEVEL_NOTE = "trusts os.fork giving each history a private copy of all class-level state; the parent never calls any validation (it never loads a registry)"
RULE = ("histories over the 85 concrete kit classes: every ordered pair of concrete classes related through inheritance (~135), 1500 random other pairs (thorough: "
        "all 85x85 ordered pairs), 200 (thorough 5000) random histories of length 3..8, registry loading as a history, and dynamically "
        "created part subclasses defined after their parents were primed. Probe set of B = an instance of B, of each of its concrete "
        "ancestors, of two siblings and one random record (the inputs a leaked ancestor pattern would mis-accept). "
        "Non-trivial = the priming history validated at least one record before the query and the query's baseline has both an accepted "
        "and a rejected probe; distinct = distinct (history, query class)."
        " Second session: every entity is asked a second time (the two answers must agree - judged on its own, in histories and baselines alike); a third-site probe; primer entities of every other probe stay alive while the query runs; inheritance-related pairs are part of the same-text histories.")
ASSUMPTIONS = ["the query's answer is (is_valid, overhang_start, overhang_end, target) or the exception class, per probe record"]
FLOORS = {"c06_histories": 1500, "c06_baseline_crosschecked": 8, "c06_related_pairs": 100, "c06_topology_orders": 1000, "c06_shared_objects": 200}
MUST_REACH = []
NEEDS_REGISTRIES = True
BUDGET_S = {"quick": 900, "thorough": 7200}
SEED = 0


def _names():
    return [gen.class_name(c) for c in gen.concrete_kit_classes()]


def cases(tier, seed):
    classes = gen.concrete_kit_classes()
    names = [gen.class_name(c) for c in classes]
    related, other = [], []
    for a in classes:
        for b in classes:
            if a is b:
                continue
            (related if (issubclass(a, b) or issubclass(b, a)) else other).append([gen.class_name(a), gen.class_name(b)])
    rng = gen.rng_for(seed, PROP, "pairs")
    all_other = list(other)
    if tier == "quick":
        # every ordered pair within one kit (state shared by the classes of a kit module can only be seen by such a pair),
        # plus a seeded sample of the cross-kit pairs (state shared through the core is seen by any pair)
        same_kit = [p for p in other if p[0].split(".")[0] == p[1].split(".")[0]]
        cross = [p for p in other if p[0].split(".")[0] != p[1].split(".")[0]]
        rng.shuffle(cross)
        other = same_kit + cross[:600]
    pairs = related + other
    out = []
    for j in range(0, len(pairs), 25):
        out.append({"kind": "pairs", "pairs": pairs[j:j + 25], "seed": seed})
    nlong = 200 if tier == "quick" else 20000
    for j in range(0, nlong, 10):
        hs = []
        for i in range(10):
            r = gen.rng_for(seed, PROP, "long", j + i)
            hs.append([r.choice(names) for _ in range(r.randint(4, 9))])
        out.append({"kind": "long", "histories": hs, "seed": seed})
    for j in range(0, 48 if tier == "quick" else 2400, 12):
        out.append({"kind": "dynamic-churn", "from": j, "count": 12, "seed": seed})
    # the query is about the very text the priming class has just looked at: every pair of classes that spell the same structure
    # (the CIDAR / original-MoClo twins over the isoschizomers BbsI / BpiI ...) and a sample of the others
    # (asked of a child process: calling structure() here would put the parent - and through it every baseline - past a
    # first use of every class)
    twins = in_child(lambda: [p for p in all_other if gen.class_by_name(p[0]).structure() == gen.class_by_name(p[1]).structure()])
    twins = [list(p) for p in twins]
    rest = [p for p in other if p not in twins]
    rng2 = gen.rng_for(seed, PROP, "same-text")
    rng2.shuffle(rest)
    # ... and every pair related by inheritance (a generic Entry looks at a plasmid, stays in the caller's hands, and a typed
    # part is asked about the same plasmid)
    st_pairs = twins + rest[: 120 if tier == "quick" else 3000] + related
    for j in range(0, len(st_pairs), 25):
        out.append({"kind": "same-text", "pairs": st_pairs[j:j + 25], "seed": seed})
    for j in range(0, 40 if tier == "quick" else 2000, 10):
        out.append({"kind": "dynamic-cutter", "from": j, "count": 10, "seed": seed})
    ndyn = 60 if tier == "quick" else 4000
    for j in range(0, ndyn, 10):
        out.append({"kind": "dynamic", "from": j, "count": 10, "seed": seed})
    for j in range(0, len(names), 6):
        out.append({"kind": "self-history", "classes": names[j:j + 6], "seed": seed, "rounds": 1 if tier == "quick" else 6})
    nshape = 40 if tier == "quick" else 1600
    for j in range(0, nshape, 8):
        out.append({"kind": "dynamic-shapes", "from": j, "count": 8, "seed": seed})
    for reg in ["ytk", "cidar", "ecoflex", "plant"]:
        out.append({"kind": "registry-history", "reg": reg, "queries": names if tier == "thorough" else names[::3], "seed": seed})
    # one class, one text, handed over in its four forms (CircularRecord, plain record without annotation, declared circular,
    # declared linear) in several orders: what the class saw first must not matter
    for j in range(0, len(names), 6):
        out.append({"kind": "topology-order", "classes": names[j:j + 6], "seed": seed})
    # the very same record objects are shown to class A and then to class B
    rng3 = gen.rng_for(seed, PROP, "shared-object")
    so = []
    for a in names:
        so += [[a, b] for b in rng3.sample([n for n in names if n != a], 3 if tier == "quick" else 24)]
    for j in range(0, len(so), 20):
        out.append({"kind": "shared-object", "pairs": so[j:j + 20], "seed": seed})
    sample = names if tier == "thorough" else names[:: max(1, len(names) // 16)]
    for j in range(0, len(sample), 4):
        out.append({"kind": "crosscheck", "classes": sample[j:j + 4], "seed": seed})
    return out


def materialise(case):
    return case


# ----------------------------------------------------------------------------- probes and answers (run inside children)

def probes(seed, cls):
    """deterministic probe records of a class: own instance, ancestors', two siblings', a random record"""
    classes = gen.concrete_kit_classes()
    fam = [a for a in cls.__mro__ if a in classes and a is not cls][:4]
    sibs = [c for c in classes if c is not cls and c.__bases__ == cls.__bases__][:2]
    out = []
    for j, src in enumerate([cls] + fam + sibs):
        rng = gen.rng_for(seed, PROP, "probe", gen.class_name(cls), j)
        s = gen.instance(rng, src.structure(), run_max=12) + gen.rand_dna(rng, 12)
        out.append(rot_left(s, rng.randrange(len(s))))
    out.append(gen.rand_dna(gen.rng_for(seed, PROP, "probe", gen.class_name(cls), "rand"), 40))
    # the same plasmids exported in lower case (and one in mixed case) by another tool
    out.append(out[0].lower())
    if len(out) > 2:
        out.append(out[1].lower())
    out.append(out[0][: len(out[0]) // 2].lower() + out[0][len(out[0]) // 2:])
    # an own instance spoilt by a further copy of the site that opens the structure, inside it (an illegal site: refused)
    rng = gen.rng_for(seed, PROP, "probe", gen.class_name(cls), "third-site")
    inst = gen.instance(rng, cls.structure(), run_max=12)
    s = inst[: len(inst) // 2] + inst[: len(cls.cutter.site)] + inst[len(inst) // 2:] + gen.rand_dna(rng, 12)
    out.append(rot_left(s, rng.randrange(len(s))))
    return out


_texts = {}


def probe_texts(seed, cls):
    """probe records of a kit class, generated in a child of their own (generating them calls structure() of the
    class, its ancestors and siblings, which must not be part of any history or baseline)"""
    key = (seed, gen.class_name(cls))
    if key not in _texts:
        _texts[key] = in_child(lambda: probes(seed, cls))
    return _texts[key]


AGAIN = "the same entity answers differently when asked again"


def answer(seed, cls, texts, keep=None):
    """the answers of `cls` about each text.  `keep`: a list that receives every entity made, so that the caller can keep
    them alive while later queries run (entities of several classes on equal records, alive at the same time)"""
    from Bio.Seq import Seq
    from moclo.record import CircularRecord
    from Bio.SeqRecord import SeqRecord

    out = []
    for s in texts:
        e = cls(CircularRecord(Seq(s), "p"))
        if keep is not None:
            keep.append(e)
        try:
            if e.is_valid():
                ans = [True, str(e.overhang_start()), str(e.overhang_end()), str(e.target_sequence().seq)]
            else:
                ans = [False]
        except Exception as ex:
            ans = ["raised", type(ex).__name__]
        try:
            again = e.is_valid()
        except Exception as ex:
            again = "raised " + type(ex).__name__
        if ans[0] in (True, False) and again is not ans[0]:
            ans.append([AGAIN, ans[0], again])      # judged on its own: a fresh interpreter would say the same
        # the same plasmid handed over as a plain SeqRecord, without any annotation (the library then assumes a plasmid) and
        # declared circular: verdict and overhangs (a plain record cannot be rotated, so no target)
        for ann in (None, {"topology": "circular"}):
            e = cls(SeqRecord(Seq(s), "p", annotations=ann))
            try:
                ans.append([True, str(e.overhang_start()), str(e.overhang_end())] if e.is_valid() else [False])
            except Exception as ex:
                ans.append(["raised", type(ex).__name__])
        out.append(ans)
    return out


def forms(s):
    """one plasmid text as the four kinds of record a caller may hold"""
    from Bio.Seq import Seq
    from moclo.record import CircularRecord
    from Bio.SeqRecord import SeqRecord

    return [CircularRecord(Seq(s), "p"), SeqRecord(Seq(s), "p"), SeqRecord(Seq(s), "p", annotations={"topology": "circular"}),
            SeqRecord(Seq(s), "p", annotations={"topology": "linear"})]


def ask(cls, rec):
    e = cls(rec)
    try:
        if not e.is_valid():
            return [False]
        ans = [True, str(e.overhang_start()), str(e.overhang_end())]
    except Exception as ex:
        return ["raised", type(ex).__name__]
    try:
        ans.append(str(e.target_sequence().seq))
    except Exception as ex:
        ans.append("target raised " + type(ex).__name__)
    return ans


def stale(cls):
    """diagnostic only: does the class-level compiled pattern still belong to this class?"""
    try:
        rx = cls._get_regex()
        return getattr(rx, "pattern", None) != cls.structure()
    except Exception:
        return None


def in_child(fn, timeout=300):
    r, w = os.pipe()
    sys.stdout.flush()
    pid = os.fork()
    if pid == 0:
        os.close(r)
        signal.alarm(timeout)
        try:
            data = pickle.dumps(("ok", fn()))
        except BaseException as e:  # noqa
            import traceback
            data = pickle.dumps(("exc", traceback.format_exc()[-800:]))
        with os.fdopen(w, "wb") as f:
            f.write(data)
        os._exit(0)
    os.close(w)
    with os.fdopen(r, "rb") as f:
        buf = f.read()
    os.waitpid(pid, 0)
    if not buf:
        raise RuntimeError("history child died")
    tag, val = pickle.loads(buf)
    if tag == "exc":
        raise RuntimeError("history child failed: " + val)
    return val


_baseline = {}


def baseline(seed, name):
    if name not in _baseline:
        cls = gen.class_by_name(name)
        t = probe_texts(seed, cls)
        _baseline[name] = in_child(lambda: answer(seed, cls, t))
    return _baseline[name]


def worker_init(ctx, tier):
    # the worker itself must never validate anything: it only forks children
    pass


def relation(a, b):
    if a is b:
        return "same-class"
    if issubclass(b, a):
        return "ancestor-primed-before-descendant"
    if issubclass(a, b):
        return "descendant-primed-before-ancestor"
    if set(a.__mro__) & set(b.__mro__) - {object}:
        pass
    return "unrelated-class-primed"


def judge(ctx, seed, history, qname, got, base, extra=None):
    ctx.count("c06_histories")
    ctx.count("evaluations")
    q = gen.class_by_name(qname) if isinstance(qname, str) and "." in qname else None
    hist_classes = [gen.class_by_name(h) for h in history if "." in h and not h.startswith("load:")]
    rels = sorted({relation(a, q) for a in hist_classes}) if q else []
    if q and any(r.startswith("ancestor") or r.startswith("descendant") for r in rels):
        ctx.count("c06_related_pairs")
    if any(b[0] is True for b in base) and any(b[0] is False for b in base):
        ctx.nontrivial([history, qname])
    for where, answers in (("in a fresh interpreter", base), ("after validating %s" % (history,), got["answers"])):
        bad = [(i, x) for i, a in enumerate(answers) for x in a if isinstance(x, list) and x and x[0] == AGAIN]
        if bad:
            ctx.violation("same-entity-answers-differently-when-asked-again:%s-then-%s" % (bad[0][1][1], bad[0][1][2]),
                          "%s, %s(record).is_valid() on probe %d says %s and then %s on the same entity" % (where, qname, bad[0][0], bad[0][1][1], bad[0][1][2]),
                          history=history, query=qname, seed=seed, probe=bad[0][0])
            break
    if got["answers"] != base:
        rel = next((r for r in rels if r.startswith("ancestor")), rels[0] if rels else "dynamic-subclass")
        if extra:
            rel = extra
        idx = [i for i in range(len(base)) if got["answers"][i] != base[i]]
        ctx.violation("history-changes-verdict:" + rel + (":stale-class-pattern" if got.get("stale") else ""),
                      "after validating %s, %s answers %s on probe(s) %s where a fresh interpreter answers %s" % (
                          history, qname, [str(got["answers"][i])[:80] for i in idx[:2]], idx, [str(base[i])[:80] for i in idx[:2]]),
                      history=history, query=qname, seed=seed, differing_probes=idx)


def execute(mat, ctx):
    seed = mat["seed"]
    kind = mat["kind"]
    if kind == "pairs":
        for a, b in mat["pairs"]:
            A, B = gen.class_by_name(a), gen.class_by_name(b)
            ta, tb = probe_texts(seed, A), probe_texts(seed, B)
            got = in_child(lambda: (answer(seed, A, ta), {"answers": answer(seed, B, tb), "stale": stale(B)})[1])
            judge(ctx, seed, [a], b, got, baseline(seed, b))
        # (probe texts are produced inside a child as well: the worker itself never calls structure() or validates)
        ctx.sample({"kind": "pair", "history": [mat["pairs"][0][0]], "query": mat["pairs"][0][1],
                    "probes": probe_texts(seed, gen.class_by_name(mat["pairs"][0][1]))[:2]}, cap=1)
    elif kind == "same-text":
        for a, b in mat["pairs"]:
            A, B = gen.class_by_name(a), gen.class_by_name(b)
            ta = probe_texts(seed, A)
            base = in_child(lambda: answer(seed, B, ta))
            def alternate():
                out = []
                alive = []
                for j, t in enumerate(ta):
                    # the primer looks at the text ... (every other primer entity stays alive while the query runs: two entities
                    # of different classes on equal records at the same time; the others are dropped at once, so that their
                    # memory may be handed to the next object)
                    answer(seed, A, [t], keep=alive if j % 2 == 0 else None)
                    out.extend(answer(seed, B, [t], keep=alive if j % 2 == 0 else None))     # ... and the query is about that very text, next
                return {"answers": out, "stale": stale(B)}

            got = in_child(alternate)
            ctx.count("c06_same_text_pairs")
            judge(ctx, seed, [a], b, got, base, extra="queried-about-the-text-the-primer-just-saw")
        ctx.sample({"kind": kind, "pair": mat["pairs"][0]}, cap=1)
    elif kind == "long":
        for h in mat["histories"]:
            prim, q = h[:-1], h[-1]
            Q = gen.class_by_name(q)

            tq = probe_texts(seed, Q)
            tp = [(gen.class_by_name(a), probe_texts(seed, gen.class_by_name(a))) for a in prim]

            def run():
                for A, ta in tp:
                    answer(seed, A, ta)
                return {"answers": answer(seed, Q, tq), "stale": stale(Q)}

            judge(ctx, seed, prim, q, in_child(run), baseline(seed, q))
        ctx.sample({"kind": "long", "history": mat["histories"][0][:-1], "query": mat["histories"][0][-1]}, cap=1)
    elif kind == "registry-history":
        def run():
            from .. import regs
            R = regs.registries()[mat["reg"]]()
            for k in R:
                R[k]
            # one grandchild per query, forked after the load, so that queries do not prime one another
            out = {}
            for n in mat["queries"]:
                Q = gen.class_by_name(n)
                out[n] = in_child(lambda: {"answers": answer(seed, Q, qtexts[n]), "stale": stale(Q)})
            return out

        qtexts = {n: probe_texts(seed, gen.class_by_name(n)) for n in mat["queries"]}
        got = in_child(run, timeout=300)
        for n in mat["queries"]:
            judge(ctx, seed, ["load:" + mat["reg"]], n, got[n], baseline(seed, n), extra="registry-loaded-before-query")
    elif kind == "dynamic":
        from moclo.kits import ytk, cidar, ecoflex, moclo as mk

        bases = [(ytk.YTKPart, ytk.YTKEntry), (cidar.CIDARPart, cidar.CIDAREntry), (ecoflex.EcoFlexPart, ecoflex.EcoFlexEntry),
                 (mk.MoCloPart, mk.MoCloEntry), (ytk.YTKPart, ytk.YTKCassetteVector), (mk.MoCloPart, mk.MoCloCassette)]
        for j in range(mat["from"], mat["from"] + mat["count"]):
            rng = gen.rng_for(seed, PROP, "dyn", j)
            pb, rb = bases[j % len(bases)]
            sig = (gen.rand_dna(rng, 4), gen.rand_dna(rng, 4))
            prime_with = rng.choice([rb, pb.__subclasses__()[0] if pb.__subclasses__() else rb, rb])

            kit_primer = prime_with in gen.concrete_kit_classes()
            tprime = probe_texts(seed, prime_with) if kit_primer else None

            def dyn_texts():
                Dyn = type(str("Dyn%d" % j), (pb, rb), {"signature": sig})
                r2 = gen.rng_for(seed, PROP, "dynprobe", j)
                texts = []
                for src in (Dyn, rb, prime_with if kit_primer else rb):
                    s = gen.instance(r2, src.structure(), run_max=12) + gen.rand_dna(r2, 12)
                    texts.append(rot_left(s, r2.randrange(len(s))))
                return texts

            dtexts = in_child(dyn_texts)

            def mk_and_query(prime):
                if prime and kit_primer:
                    answer(seed, prime_with, tprime)
                Dyn = type(str("Dyn%d" % j), (pb, rb), {"signature": sig})
                return {"answers": answer(seed, Dyn, dtexts), "stale": stale(Dyn)}

            base = in_child(lambda: mk_and_query(False))["answers"]
            got = in_child(lambda: mk_and_query(True))
            judge(ctx, seed, [gen.class_name(prime_with) if prime_with in gen.concrete_kit_classes() else prime_with.__name__],
                  "Dyn%d(%s,%s)%s" % (j, pb.__name__, rb.__name__, sig), got, base, extra="dynamic-subclass-defined-after-priming")
    elif kind == "dynamic-cutter":
        # a user's subclass of a typed kit part that only swaps the enzyme (any supported geometry, so the inherited signature may
        # be longer or shorter than the new overhang): same signature as its parent, other cutter; queried after the parent was used
        from moclo.core.parts import AbstractPart
        parts = [c for c in gen.concrete_kit_classes() if issubclass(c, AbstractPart) and not isinstance(c.__dict__.get("structure"), staticmethod)]
        for j in range(mat["from"], mat["from"] + mat["count"]):
            rng = gen.rng_for(seed, PROP, "dyncut", j)
            P = parts[rng.randrange(len(parts))]
            ename = rng.choice([e for e in gen.enzyme_names() if gen.enzyme(e) is not P.cutter])

            lower_twin = j % 3 == 2 and any(c not in "ACGT" for c in "".join(P.signature))
            if lower_twin:
                ctx.count("c06_lower_case_signature_twins")

            def mk():
                if lower_twin:
                    # the parent's signature re-typed in lower case: for the library a lower-case ambiguity letter is a plain
                    # letter, so this is another (much narrower) type than its parent
                    return type(str("DynLow%d" % j), (P,), {"signature": tuple(x.lower() for x in P.signature)})
                return type(str("DynCut%d" % j), (P,), {"cutter": gen.enzyme(ename)})

            def dyn_texts():
                # written out from the enzyme's geometry and the inherited signature (never asks the class for its structure)
                from moclo.core.vectors import AbstractVector
                from ..util import rc as _rc
                from .. import refmodel
                site, nn, kk = refmodel.geometry(P.cutter if lower_twin else gen.enzyme(ename))
                up, down = P.signature
                r2 = gen.rng_for(seed, PROP, "dyncutprobe", j)
                out = []
                for _ in range(2):
                    u, d = gen.instance(r2, up), gen.instance(r2, down)
                    body = gen.rand_dna(r2, r2.randint(2, 14))
                    if issubclass(P, AbstractVector):
                        t = gen.rand_dna(r2, 1) + d + gen.rand_dna(r2, nn) + _rc(site) + body + site + gen.rand_dna(r2, nn) + u + gen.rand_dna(r2, 1)
                    else:
                        t = site + gen.rand_dna(r2, nn) + u + gen.rand_dna(r2, 1) + body + gen.rand_dna(r2, 1) + d + gen.rand_dna(r2, nn) + _rc(site)
                    t += gen.rand_dna(r2, 12)
                    out.append(rot_left(t, r2.randrange(len(t))))
                tp = gen.instance(r2, P.structure(), run_max=12) + gen.rand_dna(r2, 12)
                out.append(rot_left(tp, r2.randrange(len(tp))))
                return out

            dtexts = in_child(dyn_texts)
            tprime = probe_texts(seed, P)
            base = in_child(lambda: answer(seed, mk(), dtexts))
            got = in_child(lambda: (answer(seed, P, tprime), {"answers": answer(seed, mk(), dtexts), "stale": None})[1])
            ctx.count("c06_dynamic_cutter_subclasses")
            judge(ctx, seed, [gen.class_name(P)], "DynCut%d(%s, cutter=%s)" % (j, P.__name__, ename), got, base,
                  extra="subclass-with-another-cutter-queried-after-its-parent")
        ctx.sample({"kind": kind, "from": mat["from"]}, cap=1)
    elif kind == "dynamic-churn":
        # run-time subclasses that come and go in one interpreter: each is created, used once and dropped (and collected) before
        # the next one is created; every answer is compared with the same class created and queried first in a fresh interpreter
        import gc
        from moclo.kits import ytk, cidar, ecoflex, moclo as mk

        bases = [(ytk.YTKPart, ytk.YTKEntry), (cidar.CIDARPart, cidar.CIDAREntry), (ecoflex.EcoFlexPart, ecoflex.EcoFlexEntry),
                 (mk.MoCloPart, mk.MoCloEntry), (ytk.YTKPart, ytk.YTKCassetteVector), (mk.MoCloPart, mk.MoCloCassette)]
        specs = []
        for j in range(mat["from"], mat["from"] + mat["count"]):
            rng = gen.rng_for(seed, PROP, "churn", j)
            pb, rb = bases[rng.randrange(len(bases))]
            specs.append((j, pb, rb, (gen.rand_dna(rng, 4), gen.rand_dna(rng, 4))))

        def make(j, pb, rb, sig):
            return type(str("Churn%d" % j), (pb, rb), {"signature": sig})

        def texts_of(spec):
            j, pb, rb, sig = spec
            r2 = gen.rng_for(seed, PROP, "churnprobe", j)
            out = []
            for src in (make(*spec), rb):
                t = gen.instance(r2, src.structure(), run_max=12) + gen.rand_dna(r2, 12)
                out.append(rot_left(t, r2.randrange(len(t))))
            return out

        texts = [in_child(lambda sp=sp: texts_of(sp)) for sp in specs]
        bases_ans = [in_child(lambda sp=sp, t=t: answer(seed, make(*sp), t)) for sp, t in zip(specs, texts)]

        def churn():
            out = []
            for sp, t in zip(specs, texts):
                D = make(*sp)
                out.append(answer(seed, D, t))
                del D
                gc.collect()
            return out

        got = in_child(churn)
        for sp, g, b in zip(specs, got, bases_ans):
            ctx.count("c06_churned_classes")
            judge(ctx, seed, ["<%d run-time classes created, used and collected before>" % (sp[0] - mat["from"])],
                  "Churn%d(%s,%s)%s" % (sp[0], sp[1].__name__, sp[2].__name__, sp[3]), {"answers": g, "stale": None}, b,
                  extra="run-time-class-after-other-run-time-classes-died")
        ctx.sample({"kind": kind, "classes": len(specs)}, cap=1)
    elif kind == "self-history":
        # the same class on other records first: the verdict on record r must not depend on which records the class
        # (its shared compiled pattern, any per-class state) has seen before.  Records: the probe set plus variants with a
        # third recognition site before / after the structure (where a pattern can start at more than one offset).
        for n in mat["classes"]:
            Q = gen.class_by_name(n)
            base_texts = probe_texts(seed, Q)
            for rnd in range(mat["rounds"]):
                rng = gen.rng_for(seed, PROP, "self", n, rnd)
                site = Q.cutter.site
                from ..util import rc as _rc
                texts = list(base_texts)
                inst = base_texts[0]
                longinst = in_child(lambda: gen.instance(gen.rng_for(seed, PROP, "long", n, rnd), Q.structure(), run_min=70, run_max=110) + gen.rand_dna(rng, 10))
                texts.append(longinst)
                for _ in range(3):
                    # same first >54 and last nucleotides of the structure, another number of internal sites
                    i = rng.randrange(len(longinst) - 40, len(longinst) - 25)
                    texts.append(longinst[:i] + rng.choice([site, _rc(site)]) + longinst[i:])
                    j = rng.randrange(len(longinst) - 40, len(longinst) - 25)
                    texts.append(longinst[:j] + gen.rand_dna(rng, 1) + longinst[j + 1:])
                for _ in range(4):
                    i = rng.randrange(len(inst))
                    texts.append(inst[:i] + rng.choice([site, _rc(site)]) + inst[i:])
                    texts.append(rot_left(texts[-1], rng.randrange(len(texts[-1]))))
                rng.shuffle(texts)
                alone = [in_child(lambda t=t: answer(seed, Q, [t]))[0] for t in texts]
                got = in_child(lambda: {"answers": answer(seed, Q, texts), "stale": stale(Q)})
                judge(ctx, seed, [n], n, got, alone, extra="same-class-validated-other-records-before")
                got = in_child(lambda: {"answers": answer(seed, Q, texts[::-1])[::-1], "stale": stale(Q)})
                judge(ctx, seed, [n], n, got, alone, extra="same-class-validated-other-records-before:reverse-order")
        ctx.sample({"kind": "self-history", "classes": mat["classes"][:3], "records_per_class": 13}, cap=1)
    elif kind == "topology-order":
        orders = [[3, 0, 1, 2], [3, 2, 1, 0], [1, 3, 0, 2], [2, 1, 0, 3], [0, 3, 2, 1]]
        for n in mat["classes"]:
            Q = gen.class_by_name(n)
            for ti, t in enumerate(probe_texts(seed, Q)[:3]):
                alone = [in_child(lambda k=k: ask(Q, forms(t)[k])) for k in range(4)]
                for o in orders:
                    def run():
                        f = forms(t)
                        got = {}
                        for k in o:
                            got[k] = ask(Q, f[k])
                        return {"answers": [got[k] for k in range(4)], "stale": stale(Q)}

                    ctx.count("c06_topology_orders")
                    judge(ctx, seed, [n], n, in_child(run), alone, extra="same-text-in-another-form-validated-before:order-%s" % "".join(map(str, o)))
        ctx.sample({"kind": kind, "classes": mat["classes"][:2], "forms": ["CircularRecord", "plain", "plain circular", "plain linear"]}, cap=1)
    elif kind == "shared-object":
        for a, b in mat["pairs"]:
            A, B = gen.class_by_name(a), gen.class_by_name(b)
            tb = probe_texts(seed, B)[:4]
            base = in_child(lambda: [ask(B, r) for t in tb for r in forms(t)])

            def run():
                recs = [r for t in tb for r in forms(t)]
                for r in recs:
                    ask(A, r)
                return {"answers": [ask(B, r) for r in recs], "stale": stale(B)}

            ctx.count("c06_shared_objects")
            judge(ctx, seed, [a], b, in_child(run), base, extra="same-record-object-validated-by-another-class-before")
        ctx.sample({"kind": kind, "pair": mat["pairs"][0]}, cap=1)
    elif kind == "dynamic-shapes":
        # user-defined classes related to kit classes in the ways a shared cache could confuse:
        #  (a) "twin": same cutter and signature as a kit part but the other role (module <-> vector);
        #  (b) "empty": a subclass of a concrete kit part that adds nothing the pattern depends on (docstring / helper method only);
        #  (c) "resigned": a subclass of a concrete kit part with another signature;
        #  (d) "same-name": like (c) but keeping the parent's __name__ (class factories, `class YTKPart2(ytk.YTKPart2)`).
        # each is queried after priming a relative (generic ancestor, direct parent, twin) and compared with a child that queried it first;
        # the kit relative is queried after priming the dynamic class as well.
        from moclo.core.parts import AbstractPart
        from moclo.core.modules import AbstractModule
        from moclo.core.vectors import AbstractVector

        parts = [c for c in gen.concrete_kit_classes() if issubclass(c, AbstractPart) and not isinstance(c.__dict__.get("structure"), staticmethod)]
        for j in range(mat["from"], mat["from"] + mat["count"]):
            rng = gen.rng_for(seed, PROP, "shape", j)
            P = rng.choice(parts)
            shape = ["twin", "empty", "resigned", "same-name"][j % 4]
            kit_role = next((b for b in P.__mro__[1:] if issubclass(b, (AbstractModule, AbstractVector)) and not issubclass(b, AbstractPart)
                             and b in gen.concrete_kit_classes()), None)
            if kit_role is None:
                continue
            partbase = next(b for b in P.__mro__[1:] if issubclass(b, AbstractPart) and b.__dict__.get("signature", 0) is NotImplemented)
            V, M = gen.generic_classes(str(P.cutter))

            def make():
                if shape == "twin":
                    other = V if issubclass(P, AbstractModule) else M
                    return type(str("Twin" + P.__name__), (partbase, other), {"signature": tuple(P.signature)})
                if shape == "empty":
                    return type(str("Lab" + P.__name__), (P,), {"__doc__": "lab-specific alias", "label": lambda self: "x"})
                if shape == "same-name":
                    # a user class that keeps the name of the kit class it derives from, with another signature
                    return type(str(P.__name__), (P,), {"signature": (P.signature[0], gen.rand_dna(gen.rng_for(seed, "sig", j), len(P.signature[1])))})
                return type(str("Re" + P.__name__), (P,), {"signature": (gen.rand_dna(gen.rng_for(seed, "sig", j), len(P.signature[0])), P.signature[1])})

            def texts(D):
                r2 = gen.rng_for(seed, PROP, "shapeprobe", j)
                out = []
                for src in (D, P, kit_role):
                    s = gen.instance(r2, src.structure(), run_max=12) + gen.rand_dna(r2, 12)
                    out.append(rot_left(s, r2.randrange(len(s))))
                return out

            primers = {"generic-ancestor": [kit_role], "direct-relative": [P], "both": [kit_role, P], "generic-classes": [V, M]}
            texts_kit = probe_texts(seed, P)[:2]
            t = in_child(lambda: texts(make()))
            for pname, prim in primers.items():
                def run(prime, query_kit=False):
                    if prime and not query_kit:
                        for c in prim:
                            answer(seed, c, texts_kit)
                    D = make()
                    if query_kit:
                        if prime:
                            answer(seed, D, t)
                        return {"answers": answer(seed, P, t), "stale": stale(P)}
                    return {"answers": answer(seed, D, t), "stale": stale(D)}

                base = in_child(lambda: run(False))["answers"]
                got = in_child(lambda: run(True))
                judge(ctx, seed, [c.__name__ for c in prim], "%s-of-%s" % (shape, P.__name__), got, base, extra="dynamic-%s-queried-after-%s" % (shape, pname))
            base = in_child(lambda: run(False, True))["answers"]
            got = in_child(lambda: run(True, True))
            judge(ctx, seed, ["%s-of-%s" % (shape, P.__name__)], gen.class_name(P), got, base, extra="kit-class-queried-after-dynamic-%s" % shape)
        ctx.sample({"kind": "dynamic-shapes", "shapes": ["twin", "empty", "resigned", "same-name"], "example_parent": P.__name__}, cap=1)
    elif kind == "crosscheck":
        # the fork baseline itself against real fresh interpreters
        for n in mat["classes"]:
            code = ("import sys, json; sys.path.insert(0, %r); from mon import boot; boot.boot(); from mon import gen; "
                    "from mon.props import C06; print(json.dumps(C06.answer(%d, gen.class_by_name(%r), %r)))" % (
                        os.path.dirname(os.path.dirname(os.path.dirname(os.path.abspath(__file__)))), seed, n, probe_texts(seed, gen.class_by_name(n))))
            env = dict(os.environ, PYTHONHASHSEED="0", PYTHONWARNINGS="ignore")
            p = subprocess.run([sys.executable, "-c", code], stdout=subprocess.PIPE, stderr=subprocess.PIPE, timeout=900, env=env)
            if p.returncode != 0:
                raise RuntimeError("fresh interpreter failed: " + p.stderr.decode()[-500:])
            fresh = json.loads(p.stdout.decode().strip().splitlines()[-1])
            ctx.count("c06_baseline_crosschecked")
            if fresh != baseline(seed, n):
                ctx.violation("harness:fork-baseline-differs-from-fresh-interpreter", "class %s: forked baseline %r, fresh interpreter %r" % (n, baseline(seed, n), fresh))

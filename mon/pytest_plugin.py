"""pytest plugin: run the repository's own test suite as an extra *workload* under the
harness-side monitors (DESIGN section 1).  Inactive unless MOCLO_VERIF=1.

    cd $MOCLO_REPO && MOCLO_VERIF=1 PYTHONPATH=/verif VERIF_PLUGIN_MONITORS=fragment,rotation,search \\
        VERIF_PLUGIN_OUT=/path/out.json python -m pytest -p mon.pytest_plugin ...
"""
import json
import os

_ctx = None


def pytest_configure(config):
    global _ctx
    if os.environ.get("MOCLO_VERIF") != "1":
        return
    from . import boot, core, monitors

    boot.boot()
    _ctx = core.Ctx(os.environ.get("VERIF_PLUGIN_PROP", "plugin"))
    _ctx.current = {"kind": "repo-tests", "note": "observed while running the repository's own test suite"}
    which = os.environ.get("VERIF_PLUGIN_MONITORS", "fragment,rotation,search").split(",")
    if "fragment" in which:
        monitors.FragmentMonitor(_ctx).install()
    if "rotation" in which:
        monitors.RotationMonitor(_ctx).install()
    if "search" in which:
        monitors.SearchMonitor(_ctx).install()
    if "circle" in which:
        monitors.CircleMonitor(_ctx).install()
    if "rc" in which:
        monitors.ReverseComplementMonitor(_ctx).install()


def pytest_sessionfinish(session, exitstatus):
    if _ctx is None:
        return
    out = os.environ.get("VERIF_PLUGIN_OUT")
    if out:
        d = _ctx.dump()
        d["pytest_exitstatus"] = int(exitstatus)
        with open(out, "w") as f:
            json.dump(d, f, default=str)

"""Seeded generators and record (de)materialisation.

Materialised record spec (JSON-able, what replay files contain):
  {"id": str, "name": str?, "seq": str,
   "features": [{"type": str, "parts": [[a, b, strand], ...], "quals": {k: [v, ...]}}],
   "refs": [{"title":..., "authors":..., "journal":...}]   (optional),
   "annotations": {...} (optional, JSON-able), "letters": {track: [..]} (optional)}
"""
import random
import re

from . import boot
from .util import rc, IUPAC, occurrences
from . import refmodel


def rng_for(*key):
    return random.Random("/".join(str(k) for k in key))


def rand_dna(rng, n, alphabet="ACGT"):
    return "".join(rng.choice(alphabet) for _ in range(n))


def enzyme(name):
    import Bio.Restriction as R

    return getattr(R, name)


def isoschizomer_names(name):
    """other Bio.Restriction enzymes with the same (site, cut offset, overhang length) as `name`"""
    import Bio.Restriction as R
    from . import asmmon

    enz = enzyme(name)
    geom = refmodel.geometry(enz)
    out = []
    for e in sorted(R.AllEnzymes, key=str):
        if e is not enz and asmmon.supported_cutter(e) and refmodel.geometry(e) == geom:
            out.append(str(e))
    return out


def enzyme_names():
    return [str(e) for e in refmodel.supported_enzymes()]


def max_distinct_overhangs(k):
    """how many k-mers can be pairwise distinct, non-palindromic and free of reverse-complement pairs"""
    pal = 4 ** (k // 2) if k % 2 == 0 else 0
    return (4 ** k - pal) // 2


def gen_overhangs(rng, k, count, forbid=(), palindromes=0.0):
    """pairwise distinct, non-palindromic overhangs no two of which are reverse complements;
    `forbid`: substrings (the recognition site and its reverse complement) an overhang must not contain"""
    out = []
    seen = set()
    tries = 0
    while len(out) < count:
        tries += 1
        if tries > 10000:
            raise RuntimeError("cannot draw %d overhangs of length %d" % (count, k))
        o = rand_dna(rng, k)
        if o in seen or rc(o) in seen or any(f in o for f in forbid):
            continue
        if o == rc(o) and rng.random() >= palindromes:
            continue   # self-complementary overhangs only with the requested probability
        seen.add(o)
        out.append(o)
    return out


def two_sites_only(s, site):
    return len(occurrences(s, site)) == 1 and len(occurrences(s, rc(site))) == 1


def _pinned(text, prefix, suffix):
    """`text` with its first/last letters replaced by prefix/suffix (lengthened when too short)"""
    if len(text) < len(prefix) + len(suffix):
        text = text + "A" * (len(prefix) + len(suffix) - len(text))
    return prefix + text[len(prefix):len(text) - len(suffix)] + suffix


def build_module(rng, geom, o5, o3, tlen, blen, extra_forbid=(), t_prefix="", t_suffix=""):
    """site . x . o5 . t . o3 . y . rc(site) . b  with exactly one site per strand
    (t_prefix/t_suffix pin the first/last letters of the target)"""
    site, n, k = geom
    for _ in range(2000):
        x = rand_dna(rng, n)
        y = rand_dna(rng, n)
        t = _pinned(rand_dna(rng, tlen), t_prefix, t_suffix)
        b = rand_dna(rng, blen)
        s = site + x + o5 + t + o3 + y + rc(site) + b
        if two_sites_only(s, site) and not any(refmodel.count_sites(s, f) for f in extra_forbid):
            return {"seq": s, "t": t, "b": b, "frag_start": len(site) + n, "frag_len": k + len(t)}
    raise RuntimeError("cannot build module")


def build_vector(rng, geom, o_start, o_end, plen, blen, extra_forbid=(), b_prefix="", b_suffix=""):
    """o_end . y . rc(site) . p . site . x . o_start . b ; retained = o_start . b
    (b_prefix/b_suffix pin the first/last letters of the backbone)"""
    site, n, k = geom
    for _ in range(2000):
        x = rand_dna(rng, n)
        y = rand_dna(rng, n)
        p = rand_dna(rng, plen)
        b = _pinned(rand_dna(rng, blen), b_prefix, b_suffix)
        s = o_end + y + rc(site) + p + site + x + o_start + b
        if two_sites_only(s, site) and not any(refmodel.count_sites(s, f) for f in extra_forbid):
            return {"seq": s, "p": p, "b": b, "frag_start": len(s) - len(b) - k, "frag_len": k + len(b)}
    raise RuntimeError("cannot build vector")


def hostile_rotations(rng, n, a, b, width, extra=4):
    """left-rotation amounts that put the origin at a+j and b-j for j in 0..width
    (inside the flanks of the structure spanning [a, b) circularly), plus a few uniform ones"""
    ks = set()
    for j in range(width + 1):
        ks.add((a + j) % n)
        ks.add((b - j) % n)
    for _ in range(extra):
        ks.add(rng.randrange(n))
    return sorted(ks)


# ------------------------------------------------------------------ instances of a structure pattern

_TOK = re.compile(r"[A-Za-z]\{\d+(?:,\d*)?\}\??|[A-Za-z][*+]\??|[A-Za-z]|[()]")      # (a lower-case letter in a pattern is the same nucleotide code: patterns are case-insensitive)


def instance(rng, pattern, run_max=12, run_min=0, groups=None, run_filter=None):
    """a string matching a moclo structure pattern: every IUPAC letter expanded to
    a random member, every run X* to run_min..run_max random members.
    groups: {group index: text} to force the content of a (non-nested, run-free) group;
    run_filter: callable(text) -> bool that the text of each run must satisfy (rejection-sampled)."""
    out = []
    g = 0
    stack = []
    skip = 0
    for t in _TOK.findall(pattern):
        if t == "(":
            g += 1
            stack.append(g)
            if groups and g in groups:
                out.append(groups[g])
                skip += 1
            continue
        if t == ")":
            if groups and stack[-1] in groups:
                skip -= 1
            stack.pop()
            continue
        if skip:
            continue
        if len(t) > 1 and t[1] == "{":
            # a counted run (`N{4}`, `N{2,6}`, `N{3,}`): another spelling of that many letters
            lo, _, hi = t[2:t.index("}")].partition(",")
            lo = int(lo)
            hi = lo if not _ else (int(hi) if hi else max(lo, run_max))
            out.append("".join(rng.choice(IUPAC[t[0].upper()]) for _ in range(rng.randint(lo, max(lo, hi)))))
            continue
        if len(t) > 1 and run_filter is not None:
            lo = max(run_min, 1 if t[1] == "+" else 0)
            for _ in range(500):
                txt = "".join(rng.choice(IUPAC[t[0].upper()]) for _ in range(rng.randint(lo, max(lo, run_max))))
                if run_filter(txt):
                    break
            out.append(txt)
            continue
        if len(t) > 1:
            lo = max(run_min, 1 if t[1] == "+" else 0)
            out.append("".join(rng.choice(IUPAC[t[0].upper()]) for _ in range(rng.randint(lo, max(lo, run_max)))))
        else:
            out.append(rng.choice(IUPAC[t.upper()]))
    return "".join(out)


# ------------------------------------------------------------------ kit classes

def concrete_kit_classes():
    """all concrete StructuredRecord subclasses defined in the five kit modules"""
    import inspect

    boot.boot()
    from moclo.kits import ytk, cidar, ecoflex, moclo as mk, plant
    from moclo._utils import isabstract
    from moclo.core._structured import StructuredRecord

    out = []
    for m in (ytk, cidar, ecoflex, mk, plant):
        for name, c in sorted(vars(m).items()):
            if inspect.isclass(c) and issubclass(c, StructuredRecord) and c.__module__ == m.__name__ and not isabstract(c):
                out.append(c)
    return out


def class_by_name(name):
    for c in concrete_kit_classes():
        if c.__module__.rsplit(".", 1)[-1] + "." + c.__name__ == name:
            return c
    raise KeyError(name)


def class_name(c):
    return c.__module__.rsplit(".", 1)[-1] + "." + c.__name__


_generic = {}


def generic_classes(enz_name):
    """harness-made generic vector/module classes for an enzyme (cached per process)"""
    boot.boot()
    from moclo.core import AbstractModule, AbstractVector

    if enz_name not in _generic:
        enz = enzyme(enz_name)
        V = type(str("GenV_" + enz_name), (AbstractVector,), {"cutter": enz})
        M = type(str("GenM_" + enz_name), (AbstractModule,), {"cutter": enz})
        _generic[enz_name] = (V, M)
    return _generic[enz_name]


_levelled = {}


def level_classes(enz_name):
    """harness-made classes over the library's level hierarchy for an enzyme:
    ({"entry": V0, "cassette": V1, "device": V2}, {"product": M-1, "entry": M0, "cassette": M1, "device": M2})"""
    boot.boot()
    from moclo.core import modules, vectors

    if enz_name not in _levelled:
        enz = enzyme(enz_name)
        vs = {k: type(str("Lv%s_%s" % (k, enz_name)), (b,), {"cutter": enz})
              for k, b in (("entry", vectors.EntryVector), ("cassette", vectors.CassetteVector), ("device", vectors.DeviceVector))}
        ms = {k: type(str("Lm%s_%s" % (k, enz_name)), (b,), {"cutter": enz})
              for k, b in (("product", modules.Product), ("entry", modules.Entry), ("cassette", modules.Cassette), ("device", modules.Device))}
        _levelled[enz_name] = (vs, ms)
    return _levelled[enz_name]


def all_harness_classes(enz_name):
    vs, ms = level_classes(enz_name)
    return list(generic_classes(enz_name)) + list(vs.values()) + list(ms.values())


# ------------------------------------------------------------------ records

def _position(kind, value, is_start):
    """a Biopython position of the given kind whose integer value is `value`:
    e exact, b before (<5), a after (>5), w within ((5.8)), t between (5^8), o one-of"""
    from Bio.SeqFeature import ExactPosition, BeforePosition, AfterPosition, WithinPosition, BetweenPosition, OneOfPosition

    if kind == "b":
        return BeforePosition(value)
    if kind == "a":
        return AfterPosition(value)
    if kind in ("w", "t"):
        cls = WithinPosition if kind == "w" else BetweenPosition
        return cls(value, left=value, right=value + 2) if is_start else cls(value, left=max(0, value - 2), right=value)
    if kind == "o":
        alt = value + 1 if is_start else max(0, value - 1)
        return OneOfPosition(value, choices=[ExactPosition(value), ExactPosition(alt)])
    return ExactPosition(value)


def fuzzy_kinds(rng, nparts):
    """per part a (start kind, end kind) pair, mostly exact"""
    return [[rng.choice("eeebawto"), rng.choice("eeebawto")] for _ in range(nparts)]


class Paper(object):
    """a reference that is not a Bio.SeqFeature.Reference (record annotations accept any object): same fields, value equality"""

    def __init__(self):
        self.location = []
        self.authors = self.consrtm = self.title = self.journal = self.medline_id = self.pubmed_id = self.comment = ""

    def __eq__(self, other):
        return isinstance(other, Paper) and vars(self) == vars(other)

    def __ne__(self, other):
        return not self == other

    __hash__ = None

    def __repr__(self):
        return "Paper(title=%r)" % self.title


def make_record(spec, cls=None):
    """materialised spec -> CircularRecord (fresh objects every call)"""
    boot.boot()
    from Bio.Seq import Seq
    from Bio.SeqFeature import SeqFeature, FeatureLocation, CompoundLocation, Reference
    from moclo.record import CircularRecord

    feats = []
    for f in spec.get("features", []):
        if f["parts"] is None:
            loc = None       # a feature without a location (Biopython allows it; rotation must leave it alone)
        else:
            fz = f.get("fuzzy") or [None] * len(f["parts"])
            parts = [FeatureLocation(_position(z[0] if z else "e", p[0], True), _position(z[1] if z else "e", p[1], False), p[2],
                                     ref=p[3] if len(p) > 3 else None, ref_db=p[4] if len(p) > 4 else None) for p, z in zip(f["parts"], fz)]
            loc = parts[0] if len(parts) == 1 else CompoundLocation(parts)
        feats.append(SeqFeature(loc, type=f["type"], qualifiers={k: (v if isinstance(v, str) else list(v)) for k, v in f.get("quals", {}).items()}, **({"id": f["fid"]} if "fid" in f else {})))
    ann = dict(spec.get("annotations", {}))
    if "refs" in spec:
        refs = []
        for r in spec["refs"]:
            ref = Paper() if r.get("duck") else Reference()
            ref.title, ref.authors, ref.journal = r["title"], r["authors"], r["journal"]
            if r.get("authors_list"):
                ref.authors = [x.strip() for x in (r["authors"] + ", Coauthor B.").split(",")]     # "a big old string, or a list split by author"
            if r.get("span") is True:
                ref.location = [FeatureLocation(0, len(spec["seq"]))]   # "bases 1 to N", as every parsed GenBank reference has
            elif r.get("span"):
                ref.location = [FeatureLocation(a, b) for a, b in r["span"]]   # "bases 120 to 480": a paper about part of the plasmid
            refs.append(ref)
        ann["references"] = refs
    kw = {}
    if "letters" in spec:
        # per-letter tracks may be lists, tuples (track names starting with "tup_") or strings (Biopython accepts all three)
        # ... or {"tuple": [...]} for a tuple-valued track under any name
        kw["letter_annotations"] = {k: (v if isinstance(v, str) else tuple(v["tuple"]) if isinstance(v, dict) else tuple(v) if k.startswith("tup_") else list(v))
                                    for k, v in spec["letters"].items()}
    return (cls or CircularRecord)(
        Seq(spec["seq"]), id=spec.get("id", "rec"), name=spec.get("name", spec.get("id", "rec")),
        description=spec.get("description", "desc"), features=feats, annotations=ann or None,
        dbxrefs=list(spec["dbxrefs"]) if "dbxrefs" in spec else None, **kw)


_ANNOTATIONS = {
    "molecule_type": "DNA", "data_file_division": "SYN", "date": "01-JAN-2020", "accessions": ["X00001"], "sequence_version": 1,
    "keywords": [""], "source": "synthetic DNA construct", "organism": "synthetic DNA construct", "taxonomy": ["other sequences"],
    "comment": "made by hand", "gi": "12345",
}


def letter_track_variety(n, *key):
    """per-letter tracks as sequencing reads carry them, or none: the same track name in any of the three container
    types Biopython accepts (list, str, tuple), decided by `key` alone"""
    r = rng_for("letter-track-variety", *key)
    if r.random() < 0.6:
        return None
    kind = r.choice(["list", "str", "tuple"])
    vals = [r.randint(0, 9) for _ in range(n)]
    return {"phred_quality": vals if kind == "list" else "".join(map(str, vals)) if kind == "str" else {"tuple": vals}}


def annotation_variety(*key):
    """record-wide annotations as parsers and people produce them: none at all, or any subset of the usual GenBank keys
    (so `source` without `organism`, a date but no division, ...), the topology in any spelling the library accepts.
    Decided by `key` alone (own random stream)."""
    import copy

    r = rng_for("annotation-variety", *key)
    if r.random() < 0.45:
        return None
    out = {k: copy.deepcopy(v) for k, v in _ANNOTATIONS.items() if r.random() < 0.45}
    if "comment" in out and r.random() < 0.5:
        out["comment"] = ["kept in the freezer", "second shelf"]      # a comment held as a list of lines
    if "molecule_type" in out:
        # GenBank and EMBL/INSDC spellings of double-stranded plasmid DNA
        out["molecule_type"] = r.choice(["DNA", "ds-DNA", "genomic DNA", "other DNA", "unassigned DNA", "ds-DNA"])
    if r.random() < 0.6:
        out["topology"] = r.choice(["circular", "circular", "Circular", "CIRCULAR"])
    return out


def rand_feature_parts(rng, n, kind=None, strand="any"):
    """a location over a record of length n in one of the shapes of DESIGN section 3"""
    if strand == "any":
        strand = rng.choice([1, -1, None])
    kind = kind or rng.choice(["simple", "simple", "wrapjoin", "join", "whole", "past", "site", "mixed"])
    if kind == "mixed" and n >= 6:
        # a join whose parts lie on different strands (trans-splicing, a primer pair annotated as one feature)
        cuts = sorted(rng.sample(range(n + 1), 4))
        return [[cuts[0], cuts[1], 1], [cuts[2], cuts[3], -1]] if rng.random() < 0.5 else [[cuts[2], cuts[3], -1], [cuts[0], cuts[1], 1]], "mixed"
    if kind == "site":
        # a between-base site (GenBank a^b): zero-length location, alone or as a part of a join
        a = rng.randrange(n + 1)
        if rng.random() < 0.3 and n >= 4:
            b = rng.randrange(n + 1)
            return [[min(a, b), min(a, b), strand], [max(a, b), max(a, b), strand]], "site"
        return [[a, a, strand]], "site"
    if kind == "whole" or n < 2:
        return [[0, n, strand]], "whole"
    if kind == "simple":
        a = rng.randrange(n)
        b = rng.randint(a + 1, n)
        return [[a, b, strand]], kind
    if kind == "past":
        a = rng.randrange(1, n)
        b = rng.randint(n + 1, a + n)
        return [[a, b, strand]], kind
    if kind == "wrapjoin":
        if n < 3:
            return [[0, n, strand]], "whole"
        a = rng.randint(1, n - 1)
        b = rng.randint(1, a)
        parts = [[a, n, strand], [0, b, strand]]
        if strand == -1:
            parts = parts[::-1]
        return parts, kind
    k = rng.randint(2, 3)
    if n < 2 * k:
        return [[0, n, strand]], "whole"
    cuts = sorted(rng.sample(range(n + 1), 2 * k))
    parts = [[cuts[2 * i], cuts[2 * i + 1], strand] for i in range(k)]
    if strand == -1:
        parts = parts[::-1]
    return parts, "join"


def rotate_parts(parts, k, n):
    """the harness's own model of what rotating a record right by k does to a location:
    every part shifts by k; parts wholly past the end come back by n"""
    out = []
    for a, b, s in parts:
        a2, b2 = a + k, b + k
        while a2 >= n:
            a2 -= n
            b2 -= n
        while a2 < 0:
            a2 += n
            b2 += n
        out.append([a2, b2, s])
    return out

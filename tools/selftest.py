#!/venv/bin/python
"""Validate the harness's own oracles (the trusted base) independently of the code under test:
 1. util.canon against the naive least rotation;
 2. rxmodel against Python's `re` on explicitly rotated copies (circular search = linear search on s[i:]+s[:i]);
 3. refmodel.ligate / cuts against the assembly cases the repository's own tests pin (tests/data/cases/*.tar.xz:
    vector.fa, modules.fa -> result.fa), using only the string model.
Exit 0 when all agree."""
import io
import lzma
import os
import random
import re
import sys
import tarfile

HERE = os.path.dirname(os.path.dirname(os.path.abspath(__file__)))
sys.path.insert(0, HERE)
from mon import util, rxmodel, refmodel  # noqa: E402

fail = 0
rng = random.Random(12345)

# 1 ---------------------------------------------------------------------------------
for _ in range(3000):
    n = rng.randint(1, 30)
    s = "".join(rng.choice("ACGT" if rng.random() < 0.7 else "AC") for _ in range(n))
    naive = min(s[i:] + s[:i] for i in range(n))
    if util.canon(s) != naive:
        print("canon mismatch", s, util.canon(s), naive)
        fail += 1
print("canon: 3000 strings compared with the naive least rotation")

# 2 ---------------------------------------------------------------------------------
LET = {"N": "[ACGT]", "R": "[AG]", "Y": "[CT]", "S": "[CG]", "W": "[AT]", "K": "[GT]", "M": "[AC]", "B": "[CGT]", "D": "[AGT]", "H": "[ACT]", "V": "[ACG]"}


def rand_pattern():
    out, depth, ng = [], 0, 0
    for _ in range(rng.randint(1, 8)):
        r = rng.random()
        if r < 0.2 and ng < 4:
            out.append("("); depth += 1; ng += 1
        elif r < 0.35 and depth and out[-1] != "(":
            out.append(")"); depth -= 1
        elif r < 0.55:
            out.append(rng.choice("NNNNRYSWB") + rng.choice(["*", "*?", "+", "+?"]))
        else:
            out.append(rng.choice("ACGTACGTNRYSWKMBDHV"))
    if out and out[-1] == "(":
        out.append("N")
    out.append(")" * depth)
    return "".join(out).replace("()", "(N)")


cmp = 0
for _ in range(20000):
    p = rand_pattern()
    n = rng.randint(1, 12)
    s = "".join(rng.choice("ACG") for _ in range(n))
    rx = re.compile("".join(LET.get(c, c) for c in p))
    circ = rng.random() < 0.6
    got = rxmodel.search(p, s, 0, None, circ)
    want = None
    for i in range(n):
        text = (s[i:] + s[:i]) if circ else s[i:]
        m = rx.match(text)
        if m:
            want = [(a + i, b + i) for a, b in [m.span(g) for g in range(rx.groups + 1)]]
            break
    cmp += 1
    if (got is None) != (want is None) or (got is not None and [tuple(x) for x in got] != want):
        print("rxmodel mismatch", p, s, circ, got, want)
        fail += 1
print("rxmodel: %d random pattern/target pairs agree with `re` run on explicitly rotated copies" % cmp)

# 3 ---------------------------------------------------------------------------------
cases_dir = os.path.join(os.environ.get("MOCLO_REPO", "/repo"), "tests", "data", "cases")


def fasta(text):
    recs, cur = [], None
    for line in text.splitlines():
        if line.startswith(">"):
            cur = [line[1:].split()[0], []]
            recs.append(cur)
        elif cur is not None:
            cur[1].append(line.strip())
    return [(k, "".join(v).upper()) for k, v in recs]


from Bio import Restriction  # noqa: E402

ncase = 0
for name in sorted(os.listdir(cases_dir)):
    if not name.endswith(".tar.xz"):
        continue
    with tarfile.open(os.path.join(cases_dir, name), "r:xz") as tar:
        files = {m.name.lstrip("./"): tar.extractfile(m).read().decode() for m in tar.getmembers() if m.isfile()}
    res = fasta(files["result.fa"])[0][1]
    vec = fasta(files["vector.fa"])[0][1]
    mods = [s for _, s in fasta(files["modules.fa"])]
    ok = False
    for enz in (Restriction.BsaI, Restriction.BsmBI, Restriction.BbsI):
        geom = refmodel.geometry(enz)
        k = geom[2]

        def arcs(t):
            """both restriction fragments of a plasmid with exactly two cuts: (leading overhang, text incl. leading overhang, trailing overhang)"""
            cs = refmodel.cuts(t, geom)
            if len(cs) != 2:
                return None
            a, b = cs[0]["cut"], cs[1]["cut"]
            n = len(t)
            return [(cs[0]["ovhg"], util.circ_slice(t, a, (b - a) % n), cs[1]["ovhg"]),
                    (cs[1]["ovhg"], util.circ_slice(t, b, (a - b) % n), cs[0]["ovhg"])]

        va = arcs(vec)
        ma = [arcs(m) for m in mods]
        if va is None or any(x is None for x in ma):
            continue
        # Golden Gate: one fragment per plasmid, chained by equal overhangs into a circle (plain string reasoning)
        for v in va:
            def dfs(cur, used, acc):
                if len(used) == len(mods):
                    return acc if cur == v[0] else None
                for i, two in enumerate(ma):
                    if i in used:
                        continue
                    for (o5, text, o3) in two:
                        if o5 == cur:
                            r = dfs(o3, used | {i}, acc + text)
                            if r is not None:
                                return r
                return None

            text = dfs(v[2], frozenset(), v[1])
            if text is not None and util.same_circle(text, res):
                ok = True
                break
        if ok:
            break
    ncase += 1
    print("refmodel: pinned case %-32s %s" % (name, "reproduced (%d nt)" % len(res) if ok else "NOT REPRODUCED"))
    if not ok:
        fail += 1
print("refmodel: %d pinned assembly cases" % ncase)
sys.exit(1 if fail else 0)

#!/venv/bin/python
"""tools/reachreport.py [evidence dir]: statement lines of the library's functions that NO check's workload executed.
Run the checks first with VERIF_REACH_ALL=1 (every source file reported) into a scratch evidence directory:
   VERIF_REACH_ALL=1 VERIF_EVIDENCE_DIR=/tmp/ev ./check Cxx --tier quick   (for every Cxx)
The union over checks is what the whole machinery never drives; each remaining line is either dead code, outside every
quantifier (3' overhang enzymes, eLabFTW, constructor argument validation) or a hole in the workloads."""
import glob
import json
import os
import sys

evdir = sys.argv[1] if len(sys.argv) > 1 else "/tmp/ev"
never = {}   # file -> {fn -> set(lines)} intersection over checks
total = {}
for f in sorted(glob.glob(os.path.join(evdir, "C*.json"))):
    rep = json.load(open(f))["coverage"].get("anchored_statements", {})
    for rel, r in rep.items():
        if not isinstance(r, dict) or "never_executed" not in r:
            continue
        total[rel] = r["function_statement_lines"]
        cur = set()
        for fn, rs in r["never_executed"].items():
            for x in rs:
                a, _, b = x.partition("-")
                for n in range(int(a), int(b or a) + 1):
                    cur.add((fn, n))
        never[rel] = cur if rel not in never else (never[rel] & cur)
for rel in sorted(never):
    miss = sorted(never[rel], key=lambda t: t[1])
    print("%s: %d of %d function statement lines never executed by any check" % (rel, len(miss), total[rel]))
    byfn = {}
    for fn, n in miss:
        byfn.setdefault(fn, []).append(n)
    for fn, ns in byfn.items():
        print("    %s: %s" % (fn, ",".join(map(str, ns))))

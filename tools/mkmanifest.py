#!/venv/bin/python
"""Regenerate /verif/MANIFEST.json from the property modules that exist.
Run after adding or changing a check:  tools/mkmanifest.py"""
import importlib
import json
import os
import sys

HERE = os.path.dirname(os.path.dirname(os.path.abspath(__file__)))
sys.path.insert(0, HERE)
props = [json.loads(l) for l in open(os.path.join(HERE, "properties.jsonl"))]
checks, na = [], []
for p in props:
    pid = p["id"]
    if not os.path.exists(os.path.join(HERE, "mon", "props", pid + ".py")):
        na.append({"property_id": pid, "reason": "check not built yet (runtime monitor planned, see DESIGN.md section 4)"})
        continue
    m = importlib.import_module("mon.props." + pid)
    checks.append({
        "property_id": pid,
        "quick_cmd": "./check %s --tier quick" % pid,
        "thorough_cmd": "./check %s --tier thorough" % pid,
        "evidence_file": "evidence/%s.json" % pid,
        "replay_cmd_template": "./check %s --replay {path}" % pid,
        "engine": "mon",
        "level_claimed": {"category": m.LEVEL, "text": m.LEVEL_TEXT, "design_ref": m.DESIGN_REF},
        "level_note": m.LEVEL_NOTE,
        "technique": m.TECHNIQUE,
    })
manifest = {
    "version": 1,
    "setup_cmd": "./setup.sh",
    "hooks": {
        "guard": "MOCLO_VERIF",
        "enable": "no source hooks: monitors are attached from the harness process by wrapping the imported "
                  "classes of /repo's working tree (MOCLO_REPO selects the tree); MOCLO_VERIF=1 only switches on "
                  "the harness-side pytest plugin used to replay the repository's own tests under the monitors",
        "baseline_off_cmd": "cd /repo && /venv/bin/python -m pytest -ra -q -p no:cacheprovider --timeout=900 --continue-on-collection-errors",
        "source_commits": [],
        "add_only": True,
    },
    "engines": [{
        "name": "mon", "path": "mon/",
        "serves_properties": [c["property_id"] for c in checks],
        "kind_free_text": "runtime monitoring: harness-installed wrappers on the repository's own methods, "
                          "reference-model oracles, fork-isolated histories, fault injection at the entity boundary, "
                          "sys.monitoring reach recorder; generated + exhaustive-small + registry workloads",
    }],
    "checks": checks,
    "not_applicable": na,
    "notes": "All checks import moclo from /repo's working tree at run time (no build step for pure Python; the "
             "registry archives are rebuilt from the .gb sources by the checks that read them). Exit 0 held, "
             "1 VIOLATION, 2 INCONCLUSIVE (monitor floors not met / watchdog / harness error; never folded into held). "
             "Genuine defects found and repaired are listed in known_findings.json (status fixed) and DESIGN.md section 6.",
}
with open(os.path.join(HERE, "MANIFEST.json"), "w") as f:
    json.dump(manifest, f, indent=1)
    f.write("\n")
print("MANIFEST.json: %d checks, %d not yet claimed" % (len(checks), len(na)))

#!/venv/bin/python
"""Take a sub-agent's seeded change into /verif/seeded/<id>/ after confirming all of it myself:
   tools/seedintake.py <src dir with A.diff/A_demo.py/...> <property id> <letter> [--props all|C01,C02]
Confirms in a scratch worktree of /repo HEAD: demo exits 0 without the change, 1 with it, the repository's
own tests pass with it; then runs the checks (tools/seedtest.py logic) and writes meta.json."""
import argparse
import json
import os
import shutil
import subprocess
import sys
import tempfile

HERE = os.path.dirname(os.path.dirname(os.path.abspath(__file__)))
ap = argparse.ArgumentParser()
ap.add_argument("src")
ap.add_argument("prop")
ap.add_argument("letter")
ap.add_argument("--props", default="all")
ap.add_argument("--tier", default="quick")
ap.add_argument("--as", dest="as_letter", default=None, help="letter to store the change under (round 2: A->C, B->D)")
a = ap.parse_args()
sid = "%s-%s" % (a.prop, a.as_letter or a.letter)
patch = os.path.join(a.src, a.letter + ".diff")
demo = os.path.join(a.src, a.letter + "_demo.py")
notes = os.path.join(a.src, "notes.md")
wt = tempfile.mkdtemp(prefix="intake-")
os.rmdir(wt)
meta = {"agent_letter": a.letter, "id": sid, "breaks_property": a.prop, "source": "independent sub-agent given only the property text and a scratch worktree"}
try:
    subprocess.check_call(["git", "-C", "/repo", "worktree", "add", "--detach", "-q", wt, "HEAD"])
    for kit in ("cidar", "ytk", "ecoflex", "plant"):   # the embedded registry archives are build products
        subprocess.run(["/venv/bin/python", "setup.py", "build_ext", "-i"], cwd=os.path.join(wt, "moclo-" + kit), stdout=subprocess.DEVNULL, stderr=subprocess.DEVNULL)
    run = lambda: subprocess.run(["/venv/bin/python", demo, wt], stdout=subprocess.PIPE, stderr=subprocess.STDOUT, timeout=600)
    p0 = run()
    meta["demo_on_unchanged_tree"] = {"exit": p0.returncode, "tail": p0.stdout.decode()[-300:]}
    subprocess.check_call(["git", "-C", wt, "apply", os.path.abspath(patch)])
    p1 = run()
    meta["demo_with_change"] = {"exit": p1.returncode, "tail": p1.stdout.decode()[-600:]}
    pt = subprocess.run(["/venv/bin/python", "-m", "pytest", "-q", "-p", "no:cacheprovider", "--timeout=900"], cwd=wt, stdout=subprocess.PIPE, stderr=subprocess.STDOUT)
    meta["repo_tests_with_change"] = pt.stdout.decode().strip().splitlines()[-1]
    ok = p0.returncode == 0 and p1.returncode == 1 and " passed" in meta["repo_tests_with_change"] and " failed" not in meta["repo_tests_with_change"]
    meta["confirmed"] = ok
finally:
    subprocess.call(["git", "-C", "/repo", "worktree", "remove", "--force", wt])
    shutil.rmtree(wt, ignore_errors=True)
print(json.dumps({k: meta[k] for k in ("demo_on_unchanged_tree", "demo_with_change", "repo_tests_with_change", "confirmed")}, indent=1)[:1500])
if not meta["confirmed"]:
    print("NOT CONFIRMED - not kept")
    sys.exit(1)
dst = os.path.join(HERE, "seeded", sid)
os.makedirs(dst, exist_ok=True)
shutil.copy(patch, os.path.join(dst, "patch.diff"))
shutil.copy(demo, os.path.join(dst, "demo.py"))
p = subprocess.run([os.path.join(HERE, "tools", "seedtest.py"), os.path.join(dst, "patch.diff"), "--props", a.props, "--tier", a.tier], stdout=subprocess.PIPE, stderr=subprocess.STDOUT)
out = p.stdout.decode()
print(out[-3000:])
caught = [l for l in out.splitlines() if l.startswith("CAUGHT-BY:")]
meta["checks_run"] = a.props
meta["tier"] = a.tier
meta["caught_by"] = caught[0].split(":", 1)[1].strip().split(",") if caught and "none" not in caught[0] else []
meta["check_output"] = [l for l in out.splitlines() if l[:3] in ("C01", "C02", "C03", "C04", "C05", "C06", "C07", "C08", "C09", "C10", "C11", "C12", "C13", "C14", "C15", "C16", "C17", "C18", "C19", "C20")]
if os.path.exists(notes):
    meta["agent_notes"] = open(notes).read()
meta["what_i_ran"] = ["demo.py <scratch worktree of /repo HEAD> (exit 0)", "git apply patch.diff; demo.py (exit 1)",
                      "pytest -q -p no:cacheprovider --timeout=900 in the worktree", "tools/seedtest.py patch.diff --props %s --tier %s" % (a.props, a.tier)]
with open(os.path.join(dst, "meta.json"), "w") as f:
    json.dump(meta, f, indent=1)
print("kept as", dst, "caught by", meta["caught_by"])

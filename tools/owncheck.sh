#!/bin/sh
# tools/owncheck.sh <seed>: every kept seeded change against the check of the property it was written against, with VERIF_SEED=<seed>
cd "$(dirname "$0")/.."
seed=${1:-1}
ls seeded | xargs -P 4 -I{} sh -c 'id={}; p=${id%%-*}; r=$(tools/seedtest.py seeded/$id/patch.diff --props $p --seed '$seed' 2>&1 | grep CAUGHT-BY); echo "$id $r"' | sort | grep -v "CAUGHT-BY: C" 
echo owncheck-seed-$seed-done

#!/bin/sh
# intake every finished sub-agent result under /tmp/wt/Cxx/_seed that is not yet in /verif/seeded
cd "$(dirname "$0")/.."
for d in /tmp/wt/C*/_seed /tmp/wt2/C*/_seed /tmp/wt3/C*/_seed /tmp/wt4/C*/_seed /tmp/wt5/C*/_seed /tmp/wt6/C*/_seed /tmp/wt7/C*/_seed /tmp/wt8/C*/_seed /tmp/wt9/C*/_seed /tmp/wt10/C*/_seed /tmp/wt11/C*/_seed; do
  [ -f "$d/notes.md" ] || continue
  p=$(basename $(dirname $d))
  for L in A B; do
    [ -f "$d/$L.diff" ] || continue
    S=$L
    case $d in /tmp/wt2/*) S=$(echo $L | tr AB CD);; /tmp/wt3/*) S=$(echo $L | tr AB EF);; /tmp/wt4/*) S=$(echo $L | tr AB GH);; /tmp/wt5/*) S=$(echo $L | tr AB IJ);; /tmp/wt6/*) S=$(echo $L | tr AB KL);; /tmp/wt7/*) S=$(echo $L | tr AB MN);; /tmp/wt8/*) S=$(echo $L | tr AB OP);; /tmp/wt9/*) S=$(echo $L | tr AB QR);; /tmp/wt10/*) S=$(echo $L | tr AB ST);; /tmp/wt11/*) S=$(echo $L | tr AB UV);; esac
    [ -f "seeded/$p-$S/meta.json" ] && [ -z "$FORCE" ] && continue
    echo "=== $p-$S"
    tools/seedintake.py $d $p $L --as $S --props all 2>&1 | grep -E "^(C[0-9]+: (VIOLATION|inconclusive|exit)|CAUGHT-BY|kept as|NOT CONFIRMED| \"confirmed\")"
  done
done

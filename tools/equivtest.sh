#!/bin/sh
# behaviour-preserving refactorings of the repository must NOT make any check fire
cd "$(dirname "$0")/.."
for p in selftest/equivalent/*.diff; do
  echo "=== $p"
  tools/seedtest.py $p --props ${1:-all} --tests | grep -E "repo tests|VIOLATION|inconclusive|exit|CAUGHT"
done

#!/bin/sh
# behaviour-preserving refactorings of the repository must NOT make any check fire (nor leave one inconclusive)
#   tools/equivtest.sh [props|all] [parallel jobs]
cd "$(dirname "$0")/.."
ls selftest/equivalent/*.diff | xargs -P ${2:-3} -I{} sh -c 'r=$(tools/seedtest.py {} --props '"${1:-all}"' --tests 2>&1 | grep -E "repo tests|VIOLATION|inconclusive|exit|CAUGHT" | tr "\n" " "); echo "=== {} $r" | cut -c1-600'

#!/venv/bin/python
"""Systematic single-token mutants of the library, as a second sensitivity measurement beside
the hand-written seeded changes (DESIGN section 9b).

   tools/mutants.py list                       # print the mutants (id, file:line, original -> mutated)
   tools/mutants.py run [--pool 4] [--only ID,ID] [--resume]
   tools/mutants.py table                      # summary of mutants/results.jsonl

For every mutant: a scratch worktree of /repo's HEAD (a pool of them under $TMPDIR, registries
built once) gets the one-token change, the repository's own suite runs there (a mutant it kills is
of no interest: the tests already settle it), and for each survivor every quick check runs with
MOCLO_REPO pointing at the worktree (evidence and replays redirected).  /repo is never touched.
Results: mutants/results.jsonl (one line per mutant)."""
import argparse
import ast
import json
import os
import shutil
import subprocess
import sys
import tempfile
import threading

HERE = os.path.dirname(os.path.dirname(os.path.abspath(__file__)))
REPO = "/repo"
FILES = [
    "moclo/moclo/record.py", "moclo/moclo/regex.py", "moclo/moclo/_utils.py", "moclo/moclo/errors.py",
    "moclo/moclo/core/_assembly.py", "moclo/moclo/core/_structured.py", "moclo/moclo/core/_utils.py",
    "moclo/moclo/core/modules.py", "moclo/moclo/core/parts.py", "moclo/moclo/core/vectors.py",
    "moclo/moclo/registry/base.py", "moclo/moclo/registry/_utils.py",
    "moclo-ytk/moclo/kits/ytk.py", "moclo-cidar/moclo/kits/cidar.py", "moclo-ecoflex/moclo/kits/ecoflex.py",
    "moclo-moclo/moclo/kits/moclo.py", "moclo-plant/moclo/kits/plant.py",
]
OUT = os.path.join(HERE, "mutants", "results.jsonl")

CMP = {ast.Eq: b"!=", ast.NotEq: b"==", ast.Lt: b"<=", ast.LtE: b"<", ast.Gt: b">=", ast.GtE: b">",
       ast.In: b"not in", ast.NotIn: b"in", ast.Is: b"is not", ast.IsNot: b"is"}
CMP_TXT = {ast.Eq: b"==", ast.NotEq: b"!=", ast.Lt: b"<", ast.LtE: b"<=", ast.Gt: b">", ast.GtE: b">=",
           ast.In: b"in", ast.NotIn: b"not in", ast.Is: b"is", ast.IsNot: b"is not"}
BIN = {ast.Add: (b"+", b"-"), ast.Sub: (b"-", b"+"), ast.Mult: (b"*", b"+"), ast.Mod: (b"%", b"+"), ast.FloorDiv: (b"//", b"*")}


def offsets(src):
    starts = [0]
    for line in src.split(b"\n"):
        starts.append(starts[-1] + len(line) + 1)
    return starts


def mutants_of(path, src):
    """yield (start, end, replacement, description) byte-range edits of `src`"""
    tree = ast.parse(src)
    st = offsets(src)

    def pos(line, col):
        return st[line - 1] + col

    def span(n):
        return pos(n.lineno, n.col_offset), pos(n.end_lineno, n.end_col_offset)

    docstrings = set()
    skip = set()
    for n in ast.walk(tree):
        if isinstance(n, (ast.Module, ast.ClassDef, ast.FunctionDef)) and n.body and isinstance(n.body[0], ast.Expr) and isinstance(getattr(n.body[0], "value", None), ast.Constant) and isinstance(n.body[0].value.value, str):
            docstrings.add(id(n.body[0].value))
        if isinstance(n, ast.If) and "TYPE_CHECKING" in ast.dump(n.test):
            for m in ast.walk(n):
                skip.add(id(m))
        if isinstance(n, ast.Assign) and any(isinstance(t, ast.Name) and t.id.startswith("__") for t in n.targets):
            for m in ast.walk(n):
                skip.add(id(m))
        if isinstance(n, (ast.Import, ast.ImportFrom, ast.Raise)):
            for m in ast.walk(n):
                skip.add(id(m))
        if isinstance(n, (ast.FunctionDef, ast.ClassDef)):
            for d in n.decorator_list:
                for m in ast.walk(d):
                    skip.add(id(m))
    for n in ast.walk(tree):
        if id(n) in skip:
            continue
        if isinstance(n, ast.Compare) and len(n.ops) == 1:
            a = span(n.left)[1]
            b = span(n.comparators[0])[0]
            txt = src[a:b]
            old = CMP_TXT[type(n.ops[0])]
            i = txt.find(old)
            if i >= 0:
                yield a + i, a + i + len(old), CMP[type(n.ops[0])], "cmp"
        elif isinstance(n, ast.BinOp) and type(n.op) in BIN:
            if isinstance(n.op, ast.Mod) and isinstance(n.left, ast.Constant) and isinstance(n.left.value, str):
                continue   # string formatting
            a = span(n.left)[1]
            b = span(n.right)[0]
            old, new = BIN[type(n.op)]
            i = src[a:b].find(old)
            if i >= 0:
                yield a + i, a + i + len(old), new, "arith"
        elif isinstance(n, ast.BoolOp):
            old, new = (b"and", b"or") if isinstance(n.op, ast.And) else (b"or", b"and")
            for x, y in zip(n.values, n.values[1:]):
                a = span(x)[1]
                b = span(y)[0]
                i = src[a:b].find(old)
                if i >= 0:
                    yield a + i, a + i + len(old), new, "bool"
        elif isinstance(n, ast.UnaryOp) and isinstance(n.op, ast.Not):
            a, _ = span(n)
            if src[a:a + 4] == b"not ":
                yield a, a + 4, b"", "not"
        elif isinstance(n, ast.Constant) and id(n) not in docstrings:
            a, b = span(n)
            if isinstance(n.value, bool):
                yield a, b, (b"False" if n.value else b"True"), "const"
            elif isinstance(n.value, int):
                yield a, b, str(n.value + 1).encode(), "const"
                if n.value != 0:
                    yield a, b, str(n.value - 1).encode(), "const"
            elif isinstance(n.value, str) and "/kits/" in path and n.value and set(n.value) <= set("ACGTN") and len(n.value) <= 8:
                # one letter of a kit signature / overhang literal
                v = n.value
                i = len(v) // 2
                w = v[:i] + {"A": "C", "C": "G", "G": "T", "T": "A", "N": "A"}[v[i]] + v[i + 1:]
                q = src[a:a + 1]
                if q in (b'"', b"'"):
                    yield a, b, q + w.encode() + q, "literal"
        elif isinstance(n, ast.If):
            a, b = span(n.test)
            yield a, b, b"not (" + src[a:b] + b")", "if-neg"
        elif isinstance(n, (ast.Expr, ast.Assign, ast.AugAssign)) and not (isinstance(n, ast.Expr) and isinstance(n.value, ast.Constant)):
            if isinstance(n, ast.Assign) and n.col_offset == 0:
                continue   # module-level bindings: removal is an ImportError/NameError, the tests settle those
            a, b = span(n)
            if isinstance(n, ast.Expr) and isinstance(n.value, (ast.Yield, ast.YieldFrom)):
                continue
            yield a, b, b"pass", "del-stmt"
        elif isinstance(n, ast.Slice):
            if n.lower is not None and n.upper is not None:
                a, b = span(n.lower)
                yield a, b, b"", "slice-lower"
        elif isinstance(n, ast.Return) and n.value is not None and not isinstance(n.value, ast.Constant):
            pass
        elif isinstance(n, (ast.Break, ast.Continue)):
            a, b = span(n)
            yield a, b, b"pass", "del-jump"


def all_mutants():
    out = []
    for f in FILES:
        src = open(os.path.join(REPO, f), "rb").read()
        seen = set()
        k = 0
        for a, b, new, kind in sorted(mutants_of(f, src), key=lambda m: (m[0], m[1], m[2])):
            if (a, b, new) in seen:
                continue
            seen.add((a, b, new))
            mutated = src[:a] + new + src[b:]
            try:
                compile(mutated, f, "exec")
            except SyntaxError:
                continue
            k += 1
            line = src.count(b"\n", 0, a) + 1
            out.append({"id": "%s#%03d" % (os.path.basename(f)[:-3] if "/kits/" not in f else "kit_" + os.path.basename(f)[:-3], k),
                        "file": f, "line": line, "kind": kind,
                        "original": src[a:b].decode("utf8", "replace")[:80], "mutated": new.decode("utf8", "replace")[:80],
                        "context": src.split(b"\n")[line - 1].decode("utf8", "replace").strip()[:120],
                        "_edit": (a, b, new)})
    # ids must be unique although two files share a basename (core/_utils.py and _utils.py)
    seen = {}
    for m in out:
        if m["id"] in seen and seen[m["id"]] != m["file"]:
            pass
    ids = {}
    for m in out:
        key = m["file"].replace("moclo/moclo/", "").replace("/", ".")[:-3] if "/kits/" not in m["file"] else None
        if key:
            m["id"] = "%s#%s" % (key, m["id"].split("#")[1])
        assert m["id"] not in ids, m["id"]
        ids[m["id"]] = 1
    return out


def check_ids():
    return [c["property_id"] for c in json.load(open(os.path.join(HERE, "MANIFEST.json")))["checks"]]


def run_one(m, wt, workers, tier):
    f = os.path.join(wt, m["file"])
    src = open(os.path.join(REPO, m["file"]), "rb").read()
    a, b, new = m["_edit"]
    scratch = tempfile.mkdtemp(prefix="mutout-")
    res = {k: v for k, v in m.items() if k != "_edit"}
    try:
        open(f, "wb").write(src[:a] + new + src[b:])
        try:
            p = subprocess.run(["/venv/bin/python", "-m", "pytest", "-q", "-x", "-p", "no:cacheprovider", "--timeout=300"],
                               cwd=wt, stdout=subprocess.PIPE, stderr=subprocess.STDOUT, timeout=1200)
            tail = p.stdout.decode("utf8", "replace").strip().splitlines()[-1:] or [""]
            res["tests"] = "pass" if p.returncode == 0 else "fail"
            res["tests_tail"] = tail[0][:160]
        except subprocess.TimeoutExpired:
            res["tests"] = "timeout"
        if res["tests"] != "pass":
            return res
        env = dict(os.environ, MOCLO_REPO=wt, VERIF_EVIDENCE_DIR=os.path.join(scratch, "ev"), VERIF_REPLAY_DIR=os.path.join(scratch, "rp"),
                   VERIF_SEED="0", VERIF_WORKERS=str(workers))
        res["checks"] = {}
        res["caught_by"] = []
        for pid in check_ids():
            try:
                p = subprocess.run([os.path.join(HERE, "check"), pid, "--tier", tier], env=env, stdout=subprocess.PIPE, stderr=subprocess.STDOUT, timeout=1800)
                rc = p.returncode
                out = p.stdout.decode("utf8", "replace")
            except subprocess.TimeoutExpired:
                rc, out = 2, "timeout"
            v = {0: "held", 1: "VIOLATION", 2: "inconclusive"}.get(rc, "exit %d" % rc)
            mech = [l.strip()[:140] for l in out.splitlines() if l.startswith("  mechanism")][:2]
            res["checks"][pid] = v if not mech else v + ": " + " | ".join(mech)
            if rc == 1:
                res["caught_by"].append(pid)
            elif rc != 0:
                res.setdefault("not_held", []).append(pid)
                if rc != 2:
                    res["checks"][pid] += " :: " + out[-300:]
        return res
    finally:
        open(f, "wb").write(src)
        shutil.rmtree(scratch, ignore_errors=True)


def main():
    ap = argparse.ArgumentParser()
    ap.add_argument("cmd", choices=["list", "run", "table"])
    ap.add_argument("--pool", type=int, default=4)
    ap.add_argument("--workers", type=int, default=4)
    ap.add_argument("--only", default="")
    ap.add_argument("--files", default="")
    ap.add_argument("--tier", default="quick")
    ap.add_argument("--resume", action="store_true")
    ap.add_argument("--rerun-missed", action="store_true", help="run again (with the current checks) the mutants that survived the tests and every check so far")
    a = ap.parse_args()
    if a.cmd == "table":
        return table()
    ms = all_mutants()
    if a.only:
        ms = [m for m in ms if m["id"] in a.only.split(",")]
    if a.files:
        ms = [m for m in ms if any(x in m["file"] for x in a.files.split(","))]
    if a.cmd == "list":
        for m in ms:
            print("%-28s %s:%d [%s] %r -> %r   | %s" % (m["id"], m["file"], m["line"], m["kind"], m["original"], m["mutated"], m["context"]))
        print(len(ms), "mutants")
        return
    os.makedirs(os.path.dirname(OUT), exist_ok=True)
    done = set()
    if a.resume and os.path.exists(OUT):
        done = {json.loads(l)["id"] for l in open(OUT)}
    ms = [m for m in ms if m["id"] not in done]
    if a.rerun_missed:
        last = {}
        for l in open(OUT):
            r = json.loads(l)
            last[r["id"]] = r
        again = {i for i, r in last.items() if r["tests"] == "pass" and not r["caught_by"]}
        ms = [m for m in all_mutants() if m["id"] in again]
    head = subprocess.check_output(["git", "-C", REPO, "rev-parse", "HEAD"]).decode().strip()
    root = tempfile.mkdtemp(prefix="mutwt-")
    pool = []
    lock = threading.Lock()
    try:
        for i in range(a.pool):
            wt = os.path.join(root, "w%d" % i)
            subprocess.check_call(["git", "-C", REPO, "worktree", "add", "--detach", "-q", wt, "HEAD"])
            subprocess.check_call(["/venv/bin/python", "-c", "import sys; sys.path.insert(0, %r); from mon import boot; boot.build_registries()" % HERE],
                                  env=dict(os.environ, MOCLO_REPO=wt), stdout=subprocess.DEVNULL, stderr=subprocess.DEVNULL)
            pool.append(wt)
        queue = list(ms)

        def worker(wt):
            while True:
                with lock:
                    if not queue:
                        return
                    m = queue.pop(0)
                r = run_one(m, wt, a.workers, a.tier)
                r["repo_head"] = head
                with lock:
                    with open(OUT, "a") as fh:
                        fh.write(json.dumps(r, sort_keys=True) + "\n")
                    print("%-28s tests=%s %s" % (r["id"], r["tests"], ("caught-by " + (",".join(r["caught_by"]) or "NONE") + (" not-held " + ",".join(r["not_held"]) if r.get("not_held") else "")) if r["tests"] == "pass" else ""), flush=True)

        ts = [threading.Thread(target=worker, args=(wt,)) for wt in pool]
        for t in ts:
            t.start()
        for t in ts:
            t.join()
    finally:
        for wt in pool:
            subprocess.call(["git", "-C", REPO, "worktree", "remove", "--force", wt])
        subprocess.call(["git", "-C", REPO, "worktree", "prune"])
        shutil.rmtree(root, ignore_errors=True)


def classify(r):
    """why a mutant that survives the repository's tests is caught by no check (reviewed by hand, expressed as rules)"""
    f, ctx, line = r["file"], r["context"], r["line"]
    if "/kits/" in f:
        return "kit tables: a letter of a published signature / overhang table that no registry plasmid and no property pins"
    if (f.endswith("core/modules.py") and line == 106) or (f.endswith("core/vectors.py") and line in (84, 96)) or (f.endswith("core/parts.py") and line in (79, 80)):
        return "3'-overhang branch: enzymes leaving a 3' overhang are outside every quantifier"
    if "_level" in ctx or "= NotImplemented" in ctx or "cutter_check" in ctx or "isinstance(base, type)" in ctx:
        return "declarative defaults and class-definition / constructor argument validation: no property speaks about them"
    if f.endswith("errors.py") or "msg = " in ctx or "raise_from" in ctx:
        return "exception attributes and message texts that no property reads"
    if f.endswith("core/_assembly.py") and "ants[" in ctx:
        return "record-wide annotations written on the product (organism, source, division): not part of C09"
    if f.endswith("record.py") and line in range(141, 151):
        return "keyword defaults of reverse_complement (keep id/name/description/annotations/dbxrefs): C14 is silent about them"
    if f.endswith("_utils.py") and "catch_warnings" in ctx or "simplefilter" in ctx or "self.getter" in ctx:
        return "BiopythonWarning filter / unused helper: nothing is emitted with the pinned Biopython"
    if f.endswith("core/vectors.py") and line == 104:
        return "illegal-site screen of vectors: a further site inside the discarded placeholder is harmless, no property forbids accepting it"
    return "equivalent mutant or dead code (default arguments never used, conditions that cannot differ, Biopython no longer copies annotations on slicing)"


def table():
    rows = [json.loads(l) for l in open(OUT)]
    last = {}
    for r in rows:
        last[r["id"]] = r
    rows = list(last.values())
    killed = [r for r in rows if r["tests"] != "pass"]
    surv = [r for r in rows if r["tests"] == "pass"]
    caught = [r for r in surv if r["caught_by"]]
    missed = [r for r in surv if not r["caught_by"]]
    print("%d mutants: %d killed by the repository's tests, %d survive them; of these %d caught by a check, %d by none" % (len(rows), len(killed), len(surv), len(caught), len(missed)))
    per = {}
    for r in caught:
        for c in r["caught_by"]:
            per[c] = per.get(c, 0) + 1
    print("caught per check:", " ".join("%s=%d" % kv for kv in sorted(per.items())))
    cats = {}
    for r in missed:
        cats.setdefault(classify(r), []).append(r["id"])
    for c, ids in sorted(cats.items(), key=lambda kv: -len(kv[1])):
        print("CATEGORY %3d  %s" % (len(ids), c))
    for r in missed:
        print("MISSED %-28s %s:%d [%s] %r -> %r | %s %s" % (r["id"], r["file"], r["line"], r["kind"], r["original"], r["mutated"], r["context"], ("not-held " + ",".join(r["not_held"])) if r.get("not_held") else ""))


if __name__ == "__main__":
    main()

#!/venv/bin/python
"""Regenerate the seeded-change table of DESIGN.md section 9 from /verif/seeded/*/meta.json."""
import glob
import json
import os
import re

HERE = os.path.dirname(os.path.dirname(os.path.abspath(__file__)))
rows = []
for f in sorted(glob.glob(os.path.join(HERE, "seeded", "*", "meta.json"))):
    m = json.load(open(f))
    notes = m.get("agent_notes", "")
    letter = m.get("agent_letter") or m["id"].split("-")[1]
    # first sentence of the agent's "Change" paragraph for this letter
    mm = re.search(r"##\s*%s\b[^\n]*\n(.*?)(?=\n##\s|\Z)" % letter, notes, re.S)
    title = re.search(r"##\s*%s\s*[-—:]*\s*([^\n]*)" % letter, notes)
    what = (title.group(1) if title else "").strip().strip("*")
    what = re.sub(r"\s+", " ", what)[:150]
    own = m["breaks_property"] in m["caught_by"]
    partial = "" if m.get("checks_run", "all") == "all" else " (only %s run)" % m["checks_run"]
    rows.append("| %s | %s | %s | %s |" % (m["id"], what.replace("|", "/"), (", ".join(m["caught_by"]) or "**none**") + partial,
                                         "yes" if own else ("by others only" if m["caught_by"] else "NO")))
table = ["| seeded change | what it is (sub-agent's title) | quick checks that report a VIOLATION | caught by its own property's check |",
         "|---|---|---|---|"] + rows
own = sum(1 for r in rows if r.endswith("| yes |"))
table.append("")
table.append("%d seeded changes kept; %d caught by the check of the property they were written against, %d by some check." % (
    len(rows), own, sum(1 for r in rows if "**none**" not in r)))
p = os.path.join(HERE, "DESIGN.md")
s = open(p).read()
block = "<!-- seedtable:begin -->\n" + "\n".join(table) + "\n<!-- seedtable:end -->"
if "@SEEDTABLE@" in s:
    s = s.replace("@SEEDTABLE@", block)
else:
    s = re.sub(r"<!-- seedtable:begin -->.*?<!-- seedtable:end -->", lambda _: block, s, flags=re.S)
open(p, "w").write(s)
print("\n".join(table[-12:]))

#!/venv/bin/python
"""Run checks against a seeded change WITHOUT touching /repo or the committed evidence:
   tools/seedtest.py <patch.diff> [--props C01,C07|all] [--tier quick] [--tests]
A scratch git worktree of /repo's HEAD is created under $TMPDIR, the patch applied there, the
checks run with MOCLO_REPO pointing at it (evidence and replays redirected to a scratch dir),
and the worktree removed.  --tests also runs the repository's own suite in the worktree."""
import argparse
import json
import os
import shutil
import subprocess
import sys
import tempfile

HERE = os.path.dirname(os.path.dirname(os.path.abspath(__file__)))
ap = argparse.ArgumentParser()
ap.add_argument("patch")
ap.add_argument("--props", default="all")
ap.add_argument("--tier", default="quick")
ap.add_argument("--tests", action="store_true")
ap.add_argument("--seed", default="0")
a = ap.parse_args()
ids = [c["property_id"] for c in json.load(open(os.path.join(HERE, "MANIFEST.json")))["checks"]]
props = ids if a.props == "all" else a.props.split(",")
wt = tempfile.mkdtemp(prefix="seedwt-")
scratch = tempfile.mkdtemp(prefix="seedout-")
os.rmdir(wt)
try:
    subprocess.check_call(["git", "-C", "/repo", "worktree", "add", "--detach", "-q", wt, "HEAD"])
    subprocess.check_call(["git", "-C", wt, "apply", os.path.abspath(a.patch)])
    env = dict(os.environ, MOCLO_REPO=wt, VERIF_EVIDENCE_DIR=os.path.join(scratch, "ev"), VERIF_REPLAY_DIR=os.path.join(scratch, "rp"), VERIF_SEED=a.seed)
    if a.tests:
        p = subprocess.run(["/venv/bin/python", "-m", "pytest", "-q", "-p", "no:cacheprovider", "--timeout=900", "-x"], cwd=wt, stdout=subprocess.PIPE, stderr=subprocess.STDOUT)
        print("repo tests with the change:", p.stdout.decode().strip().splitlines()[-1])
    caught = []
    for pid in props:
        p = subprocess.run([os.path.join(HERE, "check"), pid, "--tier", a.tier], env=env, stdout=subprocess.PIPE, stderr=subprocess.STDOUT)
        out = p.stdout.decode()
        lines = [l for l in out.splitlines() if l.startswith(("VIOLATION", "HELD", "INCONCLUSIVE", "KNOWN", "  mechanism"))]
        verdict = {0: "held", 1: "VIOLATION", 2: "inconclusive"}.get(p.returncode, "exit %d" % p.returncode)
        mech = [l.strip() for l in lines if l.startswith("  mechanism")][:3]
        print("%s: %s %s" % (pid, verdict, " | ".join(mech) if mech else (lines[0][:150] if lines and verdict != "held" else "")))
        if p.returncode == 1:
            caught.append(pid)
        if p.returncode not in (0, 1, 2):
            print(out[-1500:])
    print("CAUGHT-BY:", ",".join(caught) if caught else "none")
finally:
    subprocess.call(["git", "-C", "/repo", "worktree", "remove", "--force", wt])
    shutil.rmtree(scratch, ignore_errors=True)
    shutil.rmtree(wt, ignore_errors=True)

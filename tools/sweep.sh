#!/bin/sh
# tools/sweep.sh <tier> <seed>...  : run every claimed check for each seed, print one line per run
cd "$(dirname "$0")/.."
tier=$1; shift
for seed in "$@"; do
  for id in $(/venv/bin/python -c "import json;print(' '.join(c['property_id'] for c in json.load(open('MANIFEST.json'))['checks']))"); do
    out=$(VERIF_SEED=$seed ./check $id --tier $tier 2>&1 | grep -E '^(HELD|VIOLATION|INCONCLUSIVE|KNOWN-FINDING|Traceback)' | head -3 | tr '\n' ' ')
    echo "seed=$seed $id: $out" | cut -c1-300
  done
done
